(* Model/Response.v — protocol/response.rs:21-290: the Omaha v3 response as
   serde (derive 1.0.2xx) + serde_json 1.0.1xx (default features: BTreeMap
   maps, recursion limit 128, no arbitrary precision) decode it.
   Definitions only; facts are in Proofs/JsonFacts.v and Proofs/ResponseFacts.v.

   The model is "parse the bytes into a JSON tree (Model/Json.v), then decode
   the tree with serde's derive rules".  serde_json is a streaming parser; the
   two agree on accept/reject because every error of either phase rejects the
   whole input and a successful parse always consumes the whole input.  Where
   the streaming parser treats a value differently depending on whether the
   target type *keeps* it or *ignores* it, the tree carries enough to replay
   the difference:

   - ignored values (unknown keys of a derived struct WITHOUT a flattened
     field: the wrapper, Response, DayStart, Ping, Event, URLs, URL, Manifest,
     Actions, Packages) go through serde_json's `ignore_value`: an iterative
     scanner, no recursion limit, strings are not UTF-8 validated and lone
     surrogate escapes are accepted (JStr false _ is fine there);
   - kept values (every typed field, every object key that serde sees as a
     field identifier, and every key and value buffered into serde's private
     `Content` for the four structs with #[serde(flatten)]: App, UpdateCheck,
     Action, Package) are parsed recursively under the 128 limit: at most 127
     containers may be open at once; strings must be valid UTF-8 with paired
     surrogates (JStr true _).

   Sub-language: numbers with a fraction or exponent, integer literals outside
   u64 / below -2^63, and "-0" are f64 for serde_json.  In typed positions they
   are always an error (modelled exactly).  In extension attributes they are
   kept as floats; the model keeps the literal and Run/EvalC16.v reports such
   results as "kept float" (serde_json may additionally reject a float whose
   magnitude overflows f64; that single check is not modelled). *)
Require Import Verif.Base.Bytes Verif.Model.Json Verif.Model.Proto.
Open Scope N_scope.

(* ------------------------------------------------------------------ *)
(* typed result                                                         *)

(* response.rs:96-107  #[serde(field_identifier, rename_all = "lowercase")] *)
Inductive omaha_status := SOk | SRestricted | SNoUpdate | SError (s : bytes).

Definition jextras := list (bytes * json).     (* extension attributes, document order *)

Record rpackage := {                            (* response.rs:232-250 *)
  pk_name : bytes; pk_required : bool; pk_size : option N;
  pk_hash : option bytes; pk_hash_sha256 : option bytes; pk_fp : bytes;
  pk_extra : jextras }.
Record raction := {                             (* response.rs:207-217 *)
  ac_event : option bytes; ac_run : option bytes; ac_extra : jextras }.
Record rmanifest := {                           (* response.rs:192-198, with Actions/Packages wrappers unfolded *)
  mf_version : bytes; mf_actions : list raction; mf_packages : list rpackage }.
Record rupdatecheck := {                        (* response.rs:121-137; urls = URLs.url[*].codebase *)
  uc_status : omaha_status; uc_info : option bytes; uc_urls : option (list bytes);
  uc_manifest : option rmanifest; uc_extra : jextras }.
Record rapp := {                                (* response.rs:54-83 *)
  ra_id : bytes; ra_status : omaha_status; ra_cohort : cohort;
  ra_ping : option omaha_status;                (* Ping { status } *)
  ra_update_check : option rupdatecheck;
  ra_events : option (list omaha_status);       (* Option<Vec<Event { status }>> *)
  ra_extra : jextras }.
Record daystart := { ds_days : option N; ds_seconds : option N }.     (* response.rs:44-52 *)
Record response := {                            (* response.rs:21-42 *)
  r_protocol : bytes; r_server : option bytes; r_daystart : option daystart; r_apps : list rapp }.

(* ------------------------------------------------------------------ *)
(* serde building blocks                                                *)

Definition kv := (bytes * bool * json)%type.
Definition key_of (x : kv) : bytes := fst (fst x).
Definition kok_of (x : kv) : bool := snd (fst x).
Definition val_of (x : kv) : json := snd x.

(* every key of an object that serde reads as a field identifier is parsed with parse_str *)
Definition keys_ok (kvs : list kv) : bool := forallb kok_of kvs.

Definition lookup (k : bytes) (kvs : list kv) : list kv :=
  filter (fun x => bytes_eqb (key_of x) k) kvs.

(* None: the key occurs twice (serde: duplicate field, also when the first value was null);
   Some None: absent; Some (Some v): present once *)
Definition get_field (k : bytes) (kvs : list kv) : option (option json) :=
  match lookup k kvs with
  | [] => Some None
  | [x] => Some (Some (val_of x))
  | _ => None
  end.

Fixpoint get_fields (names : list bytes) (kvs : list kv) : option (list (option json)) :=
  match names with
  | [] => Some []
  | n :: ns =>
      match get_field n kvs, get_fields ns kvs with
      | Some o, Some r => Some (o :: r)
      | _, _ => None
      end
  end.

Definition mem_key (k : bytes) (names : list bytes) : bool := existsb (bytes_eqb k) names.

(* the entries a struct with a flattened field buffers for its flattened members, document order *)
Definition others (names : list bytes) (kvs : list kv) : jextras :=
  map (fun x => (key_of x, val_of x)) (filter (fun x => negb (mem_key (key_of x) names)) kvs).

(* derived struct without flatten (Deserializer::deserialize_struct): an object
   — unknown keys ignored whatever their value — or an array with exactly one
   element per field in declaration order (visit_seq; fewer: invalid length,
   more: trailing characters) *)
Definition struct_fields (names : list bytes) (j : json) : option (list (option json)) :=
  match j with
  | JObj kvs => if keys_ok kvs then get_fields names kvs else None
  | JArr l => if Nat.eqb (length l) (length names) then Some (map (@Some json) l) else None
  | _ => None
  end.

(* derived struct with a flattened field (deserialize_map): objects only *)
Definition flat_fields (names : list bytes) (j : json) : option (list (option json) * jextras) :=
  match j with
  | JObj kvs =>
      if keys_ok kvs then
        match get_fields names kvs with
        | Some vs => Some (vs, others names kvs)
        | None => None
        end
      else None
  | _ => None
  end.

(* serde_json's recursion limit: remaining_depth starts at 128, is decremented on
   entering an array or object and must stay > 0: at most 127 open containers *)
Definition max_open : N := 127.

(* a value buffered into Content / kept as serde_json::Value, met when `lvl`
   containers are already open *)
Definition kept_ok (lvl : N) (v : json) : bool := strings_ok v && (lvl + depth v <=? max_open).
Definition extras_ok (lvl : N) (ex : jextras) : bool := forallb (fun e => kept_ok lvl (snd e)) ex.

(* primitives *)
Definition dec_string (j : json) : option bytes :=
  match j with JStr true s => Some s | _ => None end.
Definition dec_bool (j : json) : option bool :=
  match j with JBool b => Some b | _ => None end.
(* u32 / u64: serde_json hands integers in 0..2^64-1 to visit_u64 (range-checked
   by the target type), negative ones to visit_i64, everything else ("-0", > u64,
   fraction, exponent) to visit_f64, which unsigned targets refuse *)
Definition dec_uint (bound : N) (j : json) : option N :=
  match j with JInt false n => if n <? bound then Some n else None | _ => None end.
Definition dec_u32 := dec_uint (2 ^ 32).
Definition dec_u64 := dec_uint (2 ^ 64).

Definition status_of_string (s : bytes) : omaha_status :=
  if bytes_eqb s (s2b "ok") then SOk
  else if bytes_eqb s (s2b "restricted") then SRestricted
  else if bytes_eqb s (s2b "noupdate") then SNoUpdate
  else SError s.
(* deserialize_identifier = deserialize_str: strings only *)
Definition dec_status (j : json) : option omaha_status :=
  match j with JStr true s => Some (status_of_string s) | _ => None end.

Fixpoint all_some {A} (l : list (option A)) : option (list A) :=
  match l with
  | [] => Some []
  | Some a :: r => match all_some r with Some t => Some (a :: t) | None => None end
  | None :: _ => None
  end.
Definition dec_list {A} (dec : json -> option A) (j : json) : option (list A) :=
  match j with JArr l => all_some (map dec l) | _ => None end.

(* Option<T> field: absent or null -> None *)
Definition opt {A} (dec : json -> option A) (o : option json) : option (option A) :=
  match o with
  | None => Some None
  | Some JNull => Some None
  | Some v => match dec v with Some a => Some (Some a) | None => None end
  end.
(* any other field: required *)
Definition req {A} (dec : json -> option A) (o : option json) : option A :=
  match o with Some v => dec v | None => None end.

Definition nm (s : string) : bytes := s2b s.

(* ------------------------------------------------------------------ *)
(* the structs, innermost first                                         *)

Definition status_names := [nm "status"].
(* Ping, Event: { status: OmahaStatus } *)
Definition decode_status_struct (j : json) : option omaha_status :=
  match struct_fields status_names j with
  | Some [s] => req dec_status s
  | _ => None
  end.

Definition url_names := [nm "codebase"].
Definition decode_url (j : json) : option bytes :=
  match struct_fields url_names j with
  | Some [c] => req dec_string c
  | _ => None
  end.
Definition urls_names := [nm "url"].
Definition decode_urls (j : json) : option (list bytes) :=
  match struct_fields urls_names j with
  | Some [u] => req (dec_list decode_url) u
  | _ => None
  end.

Definition action_names := [nm "event"; nm "run"].
Definition action_lvl : N := 9.
Definition decode_action (j : json) : option raction :=
  match flat_fields action_names j with
  | Some ([e; r], ex) =>
      match opt dec_string e, opt dec_string r with
      | Some e', Some r' =>
          if extras_ok action_lvl ex then Some {| ac_event := e'; ac_run := r'; ac_extra := ex |} else None
      | _, _ => None
      end
  | _ => None
  end.
Definition actions_names := [nm "action"].
Definition decode_actions (j : json) : option (list raction) :=
  match struct_fields actions_names j with
  | Some [a] => req (dec_list decode_action) a
  | _ => None
  end.

Definition package_names := [nm "name"; nm "required"; nm "size"; nm "hash"; nm "hash_sha256"; nm "fp"].
Definition package_lvl : N := 9.
Definition decode_package (j : json) : option rpackage :=
  match flat_fields package_names j with
  | Some ([n; r; s; h; h2; f], ex) =>
      match req dec_string n, req dec_bool r, opt dec_u64 s, opt dec_string h, opt dec_string h2, req dec_string f with
      | Some n', Some r', Some s', Some h', Some h2', Some f' =>
          if extras_ok package_lvl ex then
            Some {| pk_name := n'; pk_required := r'; pk_size := s'; pk_hash := h'; pk_hash_sha256 := h2';
                    pk_fp := f'; pk_extra := ex |}
          else None
      | _, _, _, _, _, _ => None
      end
  | _ => None
  end.
Definition packages_names := [nm "package"].
Definition decode_packages (j : json) : option (list rpackage) :=
  match struct_fields packages_names j with
  | Some [p] => req (dec_list decode_package) p
  | _ => None
  end.

Definition manifest_names := [nm "version"; nm "actions"; nm "packages"].
Definition decode_manifest (j : json) : option rmanifest :=
  match struct_fields manifest_names j with
  | Some [v; a; p] =>
      match req dec_string v, req decode_actions a, req decode_packages p with
      | Some v', Some a', Some p' => Some {| mf_version := v'; mf_actions := a'; mf_packages := p' |}
      | _, _, _ => None
      end
  | _ => None
  end.

Definition update_check_names := [nm "status"; nm "info"; nm "urls"; nm "manifest"].
Definition update_check_lvl : N := 5.
Definition decode_update_check (j : json) : option rupdatecheck :=
  match flat_fields update_check_names j with
  | Some ([s; i; u; m], ex) =>
      match req dec_status s, opt dec_string i, opt decode_urls u, opt decode_manifest m with
      | Some s', Some i', Some u', Some m' =>
          if extras_ok update_check_lvl ex then
            Some {| uc_status := s'; uc_info := i'; uc_urls := u'; uc_manifest := m'; uc_extra := ex |}
          else None
      | _, _, _, _ => None
      end
  | _ => None
  end.

(* App: five direct fields, then the flattened Cohort takes its three keys out of
   the buffer (a repeated cohort key is a duplicate field of Cohort), the
   flattened map takes the rest *)
Definition app_names :=
  [nm "appid"; nm "status"; nm "ping"; nm "updatecheck"; nm "event"; nm "cohort"; nm "cohorthint"; nm "cohortname"].
Definition app_lvl : N := 4.
Definition decode_app (j : json) : option rapp :=
  match flat_fields app_names j with
  | Some ([i; s; p; u; e; c; ch; cn], ex) =>
      match req dec_string i, req dec_status s, opt decode_status_struct p, opt decode_update_check u,
            opt (dec_list decode_status_struct) e, opt dec_string c, opt dec_string ch, opt dec_string cn with
      | Some i', Some s', Some p', Some u', Some e', Some c', Some ch', Some cn' =>
          if extras_ok app_lvl ex then
            Some {| ra_id := i'; ra_status := s'; ra_cohort := {| c_id := c'; c_hint := ch'; c_name := cn' |};
                    ra_ping := p'; ra_update_check := u'; ra_events := e'; ra_extra := ex |}
          else None
      | _, _, _, _, _, _, _, _ => None
      end
  | _ => None
  end.

Definition daystart_names := [nm "elapsed_days"; nm "elapsed_seconds"].
Definition decode_daystart (j : json) : option daystart :=
  match struct_fields daystart_names j with
  | Some [d; s] =>
      match opt dec_u32 d, opt dec_u32 s with
      | Some d', Some s' => Some {| ds_days := d'; ds_seconds := s' |}
      | _, _ => None
      end
  | _ => None
  end.

Definition response_names := [nm "protocol"; nm "server"; nm "daystart"; nm "app"].
Definition decode_response (j : json) : option response :=
  match struct_fields response_names j with
  | Some [p; s; d; a] =>
      match req dec_string p, opt dec_string s, opt decode_daystart d, req (dec_list decode_app) a with
      | Some p', Some s', Some d', Some a' =>
          Some {| r_protocol := p'; r_server := s'; r_daystart := d'; r_apps := a' |}
      | _, _, _, _ => None
      end
  | _ => None
  end.

(* response.rs:262-271 ResponseWrapper { response } *)
Definition wrapper_names := [nm "response"].
Definition decode_wrapper (j : json) : option response :=
  match struct_fields wrapper_names j with
  | Some [r] => req decode_response r
  | _ => None
  end.

(* ------------------------------------------------------------------ *)
(* response.rs:273-290 parse_safe_json: exactly one ")]}'\n" is removed *)
Definition xssi_prefix : bytes := [41; 93; 125; 39; 10].
Definition strip_xssi (b : bytes) : bytes :=
  match strip_prefix xssi_prefix b with Some r => r | None => b end.

(* serde_json::from_slice::<ResponseWrapper> *)
Definition parse_body (b : bytes) : option response :=
  match parse_json b with
  | Some j => decode_wrapper j
  | None => None
  end.

Definition parse_response (b : bytes) : option response := parse_body (strip_xssi b).

(* ------------------------------------------------------------------ *)
(* response.rs:139-174 get_all_url_codebases / get_all_packages / get_all_full_urls *)
Definition codebases (u : rupdatecheck) : list bytes :=
  match uc_urls u with Some l => l | None => [] end.
Definition packages (u : rupdatecheck) : list rpackage :=
  match uc_manifest u with Some m => mf_packages m | None => [] end.
Definition full_urls (u : rupdatecheck) : list bytes :=
  flat_map (fun c => map (fun p => c ++ pk_name p) (packages u)) (codebases u).

(* ------------------------------------------------------------------ *)
(* abstract documents and their printer (for the round-trip theorem)    *)
Definition okv (key : bytes) (o : option json) : list kv :=
  match o with Some v => [(key, true, v)] | None => [] end.
Fixpoint enc_fields (names : list bytes) (vals : list (option json)) : list kv :=
  match names, vals with
  | n :: ns, v :: vs => okv n v ++ enc_fields ns vs
  | _, _ => []
  end.
Definition enc_extras (ex : jextras) : list kv := map (fun e => (fst e, true, snd e)) ex.
Definition jstr (s : bytes) : json := JStr true s.

Definition status_string (s : omaha_status) : bytes :=
  match s with SOk => nm "ok" | SRestricted => nm "restricted" | SNoUpdate => nm "noupdate" | SError e => e end.
Definition json_of_status (s : omaha_status) : json := jstr (status_string s).
Definition json_of_status_struct (s : omaha_status) : json :=
  JObj (enc_fields status_names [Some (json_of_status s)]).
Definition json_of_url (c : bytes) : json := JObj (enc_fields url_names [Some (jstr c)]).
Definition json_of_urls (l : list bytes) : json := JObj (enc_fields urls_names [Some (JArr (map json_of_url l))]).
Definition json_of_action (a : raction) : json :=
  JObj (enc_fields action_names [option_map jstr (ac_event a); option_map jstr (ac_run a)] ++ enc_extras (ac_extra a)).
Definition json_of_actions (l : list raction) : json :=
  JObj (enc_fields actions_names [Some (JArr (map json_of_action l))]).
Definition json_of_package (p : rpackage) : json :=
  JObj (enc_fields package_names
          [Some (jstr (pk_name p)); Some (JBool (pk_required p)); option_map (JInt false) (pk_size p);
           option_map jstr (pk_hash p); option_map jstr (pk_hash_sha256 p); Some (jstr (pk_fp p))]
        ++ enc_extras (pk_extra p)).
Definition json_of_packages (l : list rpackage) : json :=
  JObj (enc_fields packages_names [Some (JArr (map json_of_package l))]).
Definition json_of_manifest (m : rmanifest) : json :=
  JObj (enc_fields manifest_names
          [Some (jstr (mf_version m)); Some (json_of_actions (mf_actions m)); Some (json_of_packages (mf_packages m))]).
Definition json_of_update_check (u : rupdatecheck) : json :=
  JObj (enc_fields update_check_names
          [Some (json_of_status (uc_status u)); option_map jstr (uc_info u);
           option_map json_of_urls (uc_urls u); option_map json_of_manifest (uc_manifest u)]
        ++ enc_extras (uc_extra u)).
Definition json_of_app (a : rapp) : json :=
  JObj (enc_fields app_names
          [Some (jstr (ra_id a)); Some (json_of_status (ra_status a));
           option_map json_of_status_struct (ra_ping a);
           option_map json_of_update_check (ra_update_check a);
           option_map (fun l => JArr (map json_of_status_struct l)) (ra_events a);
           option_map jstr (c_id (ra_cohort a)); option_map jstr (c_hint (ra_cohort a));
           option_map jstr (c_name (ra_cohort a))]
        ++ enc_extras (ra_extra a)).
Definition json_of_daystart (d : daystart) : json :=
  JObj (enc_fields daystart_names [option_map (JInt false) (ds_days d); option_map (JInt false) (ds_seconds d)]).
Definition json_of_response (r : response) : json :=
  JObj (enc_fields response_names
          [Some (jstr (r_protocol r)); option_map jstr (r_server r);
           option_map json_of_daystart (r_daystart r); Some (JArr (map json_of_app (r_apps r)))]).
Definition json_of_wrapper (r : response) : json :=
  JObj (enc_fields wrapper_names [Some (json_of_response r)]).

(* an abstract document: what the server means, and whether it prepends the anti-XSSI line *)
Record doc := { d_xssi : bool; d_body : response }.
Definition print_doc (d : doc) : bytes :=
  (if d_xssi d then xssi_prefix else []) ++ print_json (json_of_wrapper (d_body d)).
Definition to_response (d : doc) : response := d_body d.

(* ---- well-formed documents: valid UTF-8, integers in range (u32 day counts,
        u64 sizes, u64 / negative i64 inside extension values), extension keys
        that do not collide with protocol keys, extension values that are
        printable JSON within the nesting limit ---- *)
Fixpoint wf_json (j : json) : bool :=
  match j with
  | JNull | JBool _ => true
  | JInt neg n => negb neg || negb (n =? 0)
  | JFloat => false
  | JStr ok s => ok && utf8_valid s
  | JArr l => forallb wf_json l
  | JObj kvs => forallb (fun x => snd (fst x) && utf8_valid (fst (fst x)) && wf_json (snd x)) kvs
  end.

(* integers that serde_json::Value stores exactly (u64, or negative i64); anything
   else in an extension attribute becomes an f64 in the real map *)
Fixpoint ints_exact (j : json) : bool :=
  match j with
  | JInt neg n => if neg then (1 <=? n) && (n <=? 2 ^ 63) else n <? 2 ^ 64
  | JArr l => forallb ints_exact l
  | JObj kvs => forallb (fun x => ints_exact (snd x)) kvs
  | _ => true
  end.

Definition wf_str (s : bytes) : bool := utf8_valid s.
Definition wf_ostr (o : option bytes) : bool := match o with Some s => utf8_valid s | None => true end.
Definition wf_ouint (bound : N) (o : option N) : bool := match o with Some n => n <? bound | None => true end.
Definition wf_status (s : omaha_status) : bool :=
  match s with
  | SError e => utf8_valid e && negb (mem_key e [nm "ok"; nm "restricted"; nm "noupdate"])
  | _ => true
  end.
Definition wf_extras (names : list bytes) (lvl : N) (ex : jextras) : bool :=
  forallb (fun e => utf8_valid (fst e) && negb (mem_key (fst e) names) && wf_json (snd e)
                    && ints_exact (snd e) && (lvl + depth (snd e) <=? max_open)) ex.
Definition wf_action (a : raction) : bool :=
  wf_ostr (ac_event a) && wf_ostr (ac_run a) && wf_extras action_names action_lvl (ac_extra a).
Definition wf_package (p : rpackage) : bool :=
  wf_str (pk_name p) && wf_ouint (2 ^ 64) (pk_size p) && wf_ostr (pk_hash p) && wf_ostr (pk_hash_sha256 p)
  && wf_str (pk_fp p) && wf_extras package_names package_lvl (pk_extra p).
Definition wf_manifest (m : rmanifest) : bool :=
  wf_str (mf_version m) && forallb wf_action (mf_actions m) && forallb wf_package (mf_packages m).
Definition wf_update_check (u : rupdatecheck) : bool :=
  wf_status (uc_status u) && wf_ostr (uc_info u)
  && match uc_urls u with Some l => forallb wf_str l | None => true end
  && match uc_manifest u with Some m => wf_manifest m | None => true end
  && wf_extras update_check_names update_check_lvl (uc_extra u).
Definition wf_app (a : rapp) : bool :=
  wf_str (ra_id a) && wf_status (ra_status a)
  && wf_ostr (c_id (ra_cohort a)) && wf_ostr (c_hint (ra_cohort a)) && wf_ostr (c_name (ra_cohort a))
  && match ra_ping a with Some s => wf_status s | None => true end
  && match ra_update_check a with Some u => wf_update_check u | None => true end
  && match ra_events a with Some l => forallb wf_status l | None => true end
  && wf_extras app_names app_lvl (ra_extra a).
Definition wf_daystart (d : daystart) : bool := wf_ouint (2 ^ 32) (ds_days d) && wf_ouint (2 ^ 32) (ds_seconds d).
Definition wf_response (r : response) : bool :=
  wf_str (r_protocol r) && wf_ostr (r_server r)
  && match r_daystart r with Some d => wf_daystart d | None => true end
  && forallb wf_app (r_apps r).
Definition wf_doc (d : doc) : bool := wf_response (d_body d).
