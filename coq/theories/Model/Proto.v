(* Model/Proto.v — shared protocol data types (common.rs, protocol.rs,
   protocol/request.rs, request_builder.rs RequestParams, configuration.rs) *)
Require Import Verif.Base.Bytes Verif.Model.Version Verif.Model.Json.
Open Scope N_scope.

(* protocol.rs:28-43 *)
Record cohort := { c_id : option bytes; c_hint : option bytes; c_name : option bytes }.
Definition cohort_none : cohort := {| c_id := None; c_hint := None; c_name := None |}.

Definition orelse {A} (a b : option A) : option A := match a with Some _ => a | None => b end.

(* protocol.rs:62-75 Cohort::update_from_omaha: a present field (even empty) replaces, an absent one keeps *)
Definition merge_cohort (mine omaha : cohort) : cohort :=
  {| c_id := orelse (c_id omaha) (c_id mine);
     c_hint := orelse (c_hint omaha) (c_hint mine);
     c_name := orelse (c_name omaha) (c_name mine) |}.

(* common.rs:48-80; user_counting = ClientRegulatedByDate(Option<u32>) *)
Record app := {
  a_id : bytes; a_ver : version; a_fp : option bytes;
  a_cohort : cohort; a_uc : option N; a_extra : list (bytes * bytes) }.

(* common.rs:173-175 *)
Definition app_valid (a : app) : bool :=
  negb (match a_id a with [] => true | _ => false end) && negb (Version.eqb (a_ver a) (0, 0, 0, 0)).

Inductive isource := OnDemand | ScheduledTask.
Definition isource_eqb (a b : isource) : bool :=
  match a, b with OnDemand, OnDemand | ScheduledTask, ScheduledTask => true | _, _ => false end.

(* request_builder.rs:46-61 *)
Record params := { p_source : isource; p_proxies : bool; p_disable : bool; p_samever : bool }.
Definition params_default : params :=
  {| p_source := ScheduledTask; p_proxies := false; p_disable := false; p_samever := false |}.

(* protocol/request.rs:281-340 — Serialize_repr discriminants (regenerated into gen/Anchors.v) *)
Inductive etype := ETUnknown | ETDownloadComplete | ETInstallComplete | ETUpdateComplete
                 | ETUpdateDownloadStarted | ETUpdateDownloadFinished | ETRebootedAfterUpdate.
Definition etype_code (t : etype) : N :=
  match t with ETUnknown => 0 | ETDownloadComplete => 1 | ETInstallComplete => 2 | ETUpdateComplete => 3
             | ETUpdateDownloadStarted => 13 | ETUpdateDownloadFinished => 14 | ETRebootedAfterUpdate => 54 end.
Inductive eresult := ERError | ERSuccess | ERSuccessAndRestartRequired | ERSuccessAndAppRestartRequired
                   | ERCancelled | ERErrorInSystemInstaller | ERUpdateDeferred.
Definition eresult_code (r : eresult) : N :=
  match r with ERError => 0 | ERSuccess => 1 | ERSuccessAndRestartRequired => 2 | ERSuccessAndAppRestartRequired => 3
             | ERCancelled => 4 | ERErrorInSystemInstaller => 8 | ERUpdateDeferred => 9 end.
Inductive eerr := EEParseResponse | EEConstructInstallPlan | EEInstallation | EEDeniedByPolicy.
Definition eerr_code (e : eerr) : N :=
  match e with EEParseResponse => 0 | EEConstructInstallPlan => 1 | EEInstallation => 2 | EEDeniedByPolicy => 3 end.

Record event := {
  ev_type : etype; ev_result : eresult; ev_err : option eerr;
  ev_prev : option bytes; ev_next : option bytes; ev_dl : option N }.
Definition event_default : event :=
  {| ev_type := ETUnknown; ev_result := ERError; ev_err := None; ev_prev := None; ev_next := None; ev_dl := None |}.
(* request.rs:262-279 *)
Definition event_success (t : etype) : event :=
  {| ev_type := t; ev_result := ERSuccess; ev_err := None; ev_prev := None; ev_next := None; ev_dl := None |}.
Definition event_error (e : eerr) : event :=
  {| ev_type := ETUpdateComplete; ev_result := ERError; ev_err := Some e; ev_prev := None; ev_next := None; ev_dl := None |}.

(* configuration.rs *)
Record config := {
  cfg_name : bytes; cfg_uver : version;
  os_platform : bytes; os_version : bytes; os_sp : bytes; os_arch : bytes;
  cfg_url : bytes }.

(* equality helpers *)
Definition obytes_eqb (a b : option bytes) : bool :=
  match a, b with Some x, Some y => bytes_eqb x y | None, None => true | _, _ => false end.
Definition oN_eqb (a b : option N) : bool :=
  match a, b with Some x, Some y => x =? y | None, None => true | _, _ => false end.
Definition cohort_eqb (a b : cohort) : bool :=
  obytes_eqb (c_id a) (c_id b) && obytes_eqb (c_hint a) (c_hint b) && obytes_eqb (c_name a) (c_name b).
