(* Model/Monitors6r.v — the response-time metric accounts for exactly the attempts made (clause of C06).
   Inside a check, between its announcement and the requests-per-check metric, the machine reads the clock before and
   after every attempt (whether or not the attempt reaches the wire) and then reports one response-time metric carrying
   the elapsed monotonic time and whether the attempt succeeded - unless the monotonic clock went backwards, in which
   case nothing is reported.  The monitor follows that bracket and rejects: a response-time metric on any other
   occasion, or with another duration or flag; an attempt without its metric; two requests inside one bracket; an
   update-check request outside a bracket. *)
Require Import Verif.Model.Time Verif.Base.Bytes Verif.Model.Version Verif.Model.Json Verif.Model.Proto
               Verif.Model.Request Verif.Model.Env Verif.Model.SM.
Open Scope Z_scope.

Inductive ph6r :=
| RIdle                                   (* not among the attempts of a check *)
| RInt                                    (* the check has announced itself: the clock reading for the check-interval metric comes next *)
| RStart                                  (* between attempts *)
| RMid (st : ctime) (sent ok : bool)      (* an attempt is under way since reading st; request sent?; did it succeed? *)
| RDue (d : Z) (ok : bool).               (* the attempt is over: exactly this metric is owed *)
Record q6r := { cup6r : bool; ph6r_ : ph6r }.
Definition outcome_ok (cup : bool) (o : http_outcome) : bool :=
  match o with
  | HResp st _ au _ => (negb cup || au) && ((200 <=? st) && (st <? 300))%N
  | HErr _ => false
  end.
Definition set6r (q : q6r) (p : ph6r) : q6r := {| cup6r := cup6r q; ph6r_ := p |}.

Definition step6r (q : q6r) (a : action) : option q6r :=
  match a with
  | ARequest _ _ | AReply _ _ => Some q
  | AMetric (MResponseTime d ok) =>
      match ph6r_ q with
      | RDue d' ok' => if (d =? d') && Bool.eqb ok ok' then Some (set6r q RStart) else None
      | _ => None
      end
  | _ =>
      match ph6r_ q with
      | RDue _ _ => None
      | RIdle => match a with AEvent (EvState (CheckingForUpdates _)) => Some (set6r q RInt) | _ => Some q end
      | RInt => match a with AClock _ => Some (set6r q RStart) | _ => None end
      | RStart =>
          match a with
          | AClock c => Some (set6r q (RMid c false false))
          | AMetric (MRequestsPerCheck _ _) => Some (set6r q RIdle)
          | AHttp _ _ | AEvent (EvState (CheckingForUpdates _)) => None
          | _ => Some q
          end
      | RMid st sent ok =>
          match a with
          | AHttp _ o => if sent then None else Some (set6r q (RMid st true (outcome_ok (cup6r q) o)))
          | AClock f => if mono st <=? mono f then Some (set6r q (RDue (mono f - mono st) ok)) else Some (set6r q RStart)
          | AMetric (MRequestsPerCheck _ _) | AEvent (EvState (CheckingForUpdates _)) => None
          | _ => Some q
          end
      end
  end.
Definition init6r (cup : option N) : q6r := {| cup6r := match cup with Some _ => true | None => false end; ph6r_ := RIdle |}.
