(* Model/Monitors8m.v — clause of C08: never a mixture of two commits.  A check may write the bookkeeping keys before it is
   finished (a changed poll interval is stored and committed at once, in the middle of the check).  Whatever is written
   to the last-contact-time key and the failure-count key while a check is under way (between its announcement and its
   result) must be the values the machine last announced (schedule / protocol-state events) - the values of the last
   finished check or ping - never values the running check has computed but not yet announced.  A crash after such a
   commit then leaves a state that was announced, not a mixture. *)
Require Import Verif.Model.Time Verif.Base.Bytes Verif.Model.Version Verif.Model.Json Verif.Model.Proto
               Verif.Model.Request Verif.Model.Env Verif.Model.SM Verif.Model.Monitors Verif.Model.Monitors18.
Open Scope Z_scope.

Record q8m := { in8m : bool;                       (* a check has announced itself and not yet delivered its result *)
                annlu8m : option (option pct);     (* last-contact time of the latest schedule announcement, if any *)
                annf8m : option Z }.               (* failure count of the latest protocol-state announcement, if any *)
Definition step8m (q : q8m) (a : action) : option q8m :=
  match a with
  | AEvent (EvState (CheckingForUpdates _)) => Some {| in8m := true; annlu8m := annlu8m q; annf8m := annf8m q |}
  | AEvent (EvResult _) => Some {| in8m := false; annlu8m := annlu8m q; annf8m := annf8m q |}
  | AEvent (EvSchedule s) => Some {| in8m := in8m q; annlu8m := Some (s_last_update s); annf8m := annf8m q |}
  | AEvent (EvProtocol ps) => Some {| in8m := in8m q; annlu8m := annlu8m q; annf8m := Some (ps_fails ps) |}
  | AStore op _ =>
      if in8m q then
        if key_is K_LAST_UPDATE_TIME op then
          match annlu8m q with Some lu => if store_op_eqb op (lu_store_op lu) then Some q else None | None => Some q end
        else if key_is K_FAILED_CHECKS op then
          match annf8m q with Some f => if store_op_eqb op (fails_store_op f) then Some q else None | None => Some q end
        else Some q
      else Some q
  | _ => Some q
  end.
Definition init8m : q8m := {| in8m := false; annlu8m := None; annf8m := None |}.
