(* Model/Monitors2b.v — a second, small monitor for C02: a response that fails authentication never changes the announced
   protocol state.  Between an unauthenticated response and the next schedule announcement (the tail of the check, or the
   policy's next timing) no protocol-state change may be announced - in particular not the poll interval an attacker put
   into an X-Retry-After header.  (What is *stored* is covered by C07's monitor.) *)
Require Import Verif.Model.Time Verif.Base.Bytes Verif.Model.Version Verif.Model.Json Verif.Model.Proto
               Verif.Model.Request Verif.Model.Env Verif.Model.SM Verif.Model.Monitors.
Open Scope Z_scope.

Record q2b := { cup2b : bool; armed2b : bool }.
Definition step2b (q : q2b) (a : action) : option q2b :=
  match a with
  | AHttp _ o => Some {| cup2b := cup2b q; armed2b := forged (cup2b q) o |}
  | AEvent (EvSchedule _) => Some {| cup2b := cup2b q; armed2b := false |}
  | AEvent (EvProtocol _) => if armed2b q then None else Some q
  | _ => Some q
  end.
Definition init2b (cup : option N) : q2b := {| cup2b := match cup with Some _ => true | None => false end; armed2b := false |}.
