(* Model/Gen.v — omaha-client/src/async_generator.rs (generate, Yield::yield_,
   Yield::yield_all, Generator::poll_next, FusedStream::is_terminated) over a
   protocol-level transcription of futures-channel 0.3.34 mpsc::channel(0)
   (src/mpsc/mod.rs, sink_impl.rs) and of futures-util's Send / SendAll / Fuse.

   One generator = one sender + one receiver, both polled by the same consumer
   with the same ("root") waker; everything is single-threaded, so the
   lock-free queues are plain lists and the atomics plain fields.

   A generator *program* is the body of the async closure handed to
   `generate`: a list of operations followed by `return r`.  A consumer
   *schedule* is a list of `Poll` (one call of Stream::poll_next with the root
   waker) and `Complete k` (the environment completes external event k).
   Definitions only; facts are in Proofs/GenFacts.v. *)
From Coq Require Export List NArith Bool.
Export ListNotations.
Open Scope N_scope.

(* ---------------------------------------------------------------- programs *)
Inductive op :=
| Yield (x : N)            (* co.yield_(x).await *)
| YieldAll (xs : list N)   (* co.yield_all(xs).await *)
| SelfWake                 (* a future that calls cx.waker().wake_by_ref() and returns Pending once *)
| Wait (k : N)             (* await external event k; `Complete k` completes it and wakes the registered waker *)
| DropHandle.              (* drop(co): the Yield handle (the only Sender) is dropped early;
                              the closure no longer has a handle, so later Yield/YieldAll do nothing *)

Record program := { p_ops : list op; p_ret : N }.

Inductive sstep := Poll | Complete (k : N).
Definition schedule := list sstep.

(* the items a program hands to its consumer, in program order *)
Fixpoint emits (ops : list op) : list N :=
  match ops with
  | [] => []
  | Yield x :: r => x :: emits r
  | YieldAll xs :: r => xs ++ emits r
  | DropHandle :: _ => []
  | _ :: r => emits r
  end.

(* ------------------------------------------------------------------ state *)
(* sub-state of the operation the task is suspended in *)
Inductive sub :=
| NotSent              (* operation not begun / item still in the Send future *)
| SentWaitingFlush.    (* Yield: item pushed into the channel, Send future waits in poll_flush *)

(* Everything outside the task's own control state: the channel
   (mpsc::BoundedInner + the sender's SenderTask), the environment's events,
   and the instrumentation the harness also records. *)
Record mach := mkM {
  m_queue : list N;           (* message_queue (num_messages = its length) *)
  m_parked : bool;            (* SenderTask.is_parked (= sender is in parked_queue) *)
  m_swaker : bool;            (* SenderTask.task = Some(root waker) *)
  m_open : bool;              (* state.is_open: the (only) Sender is alive *)
  m_rwaker : bool;            (* recv_task holds the root waker *)
  m_completed : list N;       (* external events completed so far *)
  m_wait_reg : option N;      (* the Wait future that has stored the root waker *)
  m_woken : bool;             (* root waker woken since the flag was last cleared *)
  m_log : list N              (* indices of the operations that finished during the current poll *)
}.

Record task := mkT {
  t_pc : nat;                 (* number of finished operations = index of the current one *)
  t_rest : list op;           (* the operations not yet finished, current one first *)
  t_sub : sub;                (* current Yield *)
  t_sent : nat;               (* current YieldAll: number of its items already pushed into the channel *)
  t_selfwoke : bool;          (* current SelfWake has already returned Pending *)
  t_done : bool               (* Fuse::is_terminated: the future returned and was dropped *)
}.

Record gstate := mkG {
  g_task : task;
  g_m : mach;
  g_ret : N;                  (* the value the closure returns *)
  g_res : option N;           (* Generator.res *)
  g_sterm : bool              (* Receiver::is_terminated (inner = None) *)
}.

(* ---- field updates ---- *)
Definition set_woken (b : bool) (m : mach) : mach :=
  mkM (m_queue m) (m_parked m) (m_swaker m) (m_open m) (m_rwaker m) (m_completed m) (m_wait_reg m) b (m_log m).
Definition wake_root : mach -> mach := set_woken true.
Definition set_log (l : list N) (m : mach) : mach :=
  mkM (m_queue m) (m_parked m) (m_swaker m) (m_open m) (m_rwaker m) (m_completed m) (m_wait_reg m) (m_woken m) l.
Definition log_done (pc : nat) (m : mach) : mach := set_log (m_log m ++ [N.of_nat pc]) m.

Definition mem (k : N) (l : list N) : bool := existsb (N.eqb k) l.

(* ------------------------------------------------- futures-channel mpsc *)
(* AtomicWaker::wake on recv_task: takes the registered waker, if any, and wakes it *)
Definition recv_task_wake (m : mach) : mach :=
  if m_rwaker m
  then wake_root (mkM (m_queue m) (m_parked m) (m_swaker m) (m_open m) false (m_completed m) (m_wait_reg m) (m_woken m) (m_log m))
  else m.

(* BoundedSenderInner::poll_ready = poll_unparked(Some(cx)); Sink::poll_flush is the same call.
   (The "receiver gone" error cannot arise: the Generator owns the Receiver and never closes it.)
   Ready iff not parked; otherwise the root waker is stored in the SenderTask. *)
Definition poll_ready (m : mach) : mach * bool :=
  if m_parked m
  then (mkM (m_queue m) true true (m_open m) (m_rwaker m) (m_completed m) (m_wait_reg m) (m_woken m) (m_log m), false)
  else (m, true).

(* start_send -> do_send_b: num_messages + 1 > buffer (= 0) always, so the sender
   parks itself (task := None, is_parked := true), pushes, and signals recv_task *)
Definition start_send (x : N) (m : mach) : mach :=
  recv_task_wake
    (mkM (m_queue m ++ [x]) true false (m_open m) (m_rwaker m) (m_completed m) (m_wait_reg m) (m_woken m) (m_log m)).

(* Drop for BoundedSenderInner, last sender: close_channel = set_closed + recv_task.wake *)
Definition drop_sender (m : mach) : mach :=
  if m_open m
  then recv_task_wake
         (mkM (m_queue m) (m_parked m) (m_swaker m) false (m_rwaker m) (m_completed m) (m_wait_reg m) (m_woken m) (m_log m))
  else m.

Inductive recv_result := RItem (x : N) | RPending | RClosed.

(* Receiver::poll_next: next_message pops and unparks one parked sender
   (SenderTask::notify: is_parked := false, stored waker taken and woken);
   empty and closed -> None; empty and open -> register the root waker, Pending *)
Definition recv (m : mach) : mach * recv_result :=
  match m_queue m with
  | x :: q =>
      let m1 := mkM q false false (m_open m) (m_rwaker m) (m_completed m) (m_wait_reg m) (m_woken m) (m_log m) in
      let m0 := mkM q (m_parked m) (m_swaker m) (m_open m) (m_rwaker m) (m_completed m) (m_wait_reg m) (m_woken m) (m_log m) in
      ((if m_parked m then (if m_swaker m then wake_root m1 else m1) else m0), RItem x)
  | [] =>
      if m_open m
      then (mkM [] (m_parked m) (m_swaker m) true true (m_completed m) (m_wait_reg m) (m_woken m) (m_log m), RPending)
      else (m, RClosed)
  end.

(* ------------------------------------------------------ external events *)
(* the Wait k future: ready iff k has been completed, else stores the root waker *)
Definition wait_poll (k : N) (m : mach) : mach * bool :=
  if mem k (m_completed m) then (m, true)
  else (mkM (m_queue m) (m_parked m) (m_swaker m) (m_open m) (m_rwaker m) (m_completed m) (Some k) (m_woken m) (m_log m), false).

(* the environment completes event k: the waker stored by a pending Wait k is taken and woken *)
Definition complete_m (k : N) (m : mach) : mach :=
  let m1 := mkM (m_queue m) (m_parked m) (m_swaker m) (m_open m) (m_rwaker m) (k :: m_completed m)
                (match m_wait_reg m with Some j => if N.eqb j k then None else Some j | None => None end)
                (m_woken m) (m_log m) in
  match m_wait_reg m with
  | Some j => if N.eqb j k then wake_root m1 else m1
  | None => m1
  end.

(* --------------------------------------------------------------- the task *)
(* SendAll::poll over stream::iter(items): for each remaining item poll_ready
   then start_send (an item that finds the sender parked stays buffered);
   when the items are exhausted, poll_flush.  Returns the items not yet pushed. *)
Fixpoint send_all (xs : list N) (m : mach) : list N * mach * bool :=
  match xs with
  | [] => let '(m1, rdy) := poll_ready m in ([], m1, rdy)
  | x :: xs' =>
      let '(m1, rdy) := poll_ready m in
      if rdy then send_all xs' (start_send x m1) else (xs, m1, false)
  end.

(* One poll of the closure's future: run operations until one is pending or
   the closure returns.  When the closure returns, its captured Yield handle
   (if still held) is dropped with it. *)
Fixpoint run_task (pc : nat) (rest : list op) (sb : sub) (sent : nat) (sw : bool) (m : mach) : task * mach :=
  match rest with
  | [] => (mkT pc [] NotSent 0 false true, drop_sender m)
  | o :: rest' =>
      let next (m' : mach) := run_task (S pc) rest' NotSent 0 false (log_done pc m') in
      let stay (sb' : sub) (sent' : nat) (sw' : bool) (m' : mach) := (mkT pc rest sb' sent' sw' false, m') in
      match o with
      | Yield x =>
          if negb (m_open m) then next m else          (* no handle any more *)
          match sb with
          | NotSent =>                                 (* Send::poll: Feed (poll_ready, start_send) then poll_flush *)
              let '(m1, rdy) := poll_ready m in
              if rdy then
                let '(m2, flushed) := poll_ready (start_send x m1) in
                if flushed then next m2 else stay SentWaitingFlush sent sw m2
              else stay NotSent sent sw m1
          | SentWaitingFlush =>                        (* Send::poll with the item gone: poll_flush only *)
              let '(m1, flushed) := poll_ready m in
              if flushed then next m1 else stay SentWaitingFlush sent sw m1
          end
      | YieldAll xs =>
          if negb (m_open m) then next m else
          let '(xs', m1, rdy) := send_all (skipn sent xs) m in
          if rdy then next m1 else stay sb (Nat.sub (length xs) (length xs')) sw m1
      | SelfWake =>
          if sw then next m else stay sb sent true (wake_root m)
      | Wait k =>
          let '(m1, rdy) := wait_poll k m in
          if rdy then next m1 else stay sb sent sw m1
      | DropHandle => next (drop_sender m)
      end
  end.

(* ---------------------------------------------------- Generator::poll_next *)
Inductive poll_result := RPendingP | RYielded (x : N) | RComplete (r : N) | RStreamEnd.

(* async_generator.rs:161-192 *)
Definition poll_next (st : gstate) : gstate * poll_result :=
  let t := g_task st in
  (* let mut task_done = this.task.is_terminated();
     if let Poll::Ready(res) = this.task.poll(cx) { this.res.replace(res); task_done = true; } *)
  let '(t1, m1) := if t_done t then (t, g_m st)
                   else run_task (t_pc t) (t_rest t) (t_sub t) (t_sent t) (t_selfwoke t) (g_m st) in
  let res1 := if negb (t_done t) && t_done t1 then Some (g_ret st) else g_res st in
  let task_done := t_done t1 in
  (* if !task_done { return Pending }  match this.res.take() { Some(res) => Complete(res), None => None } *)
  let finish (m : mach) (sterm : bool) :=
    if negb task_done then (mkG t1 m (g_ret st) res1 sterm, RPendingP)
    else match res1 with
         | Some r => (mkG t1 m (g_ret st) None sterm, RComplete r)
         | None => (mkG t1 m (g_ret st) None sterm, RStreamEnd)
         end in
  (* if !this.stream.is_terminated() { match this.stream.poll_next(cx) { ... } } *)
  if g_sterm st then finish m1 true
  else match recv m1 with
       | (m2, RPending) => (mkG t1 m2 (g_ret st) res1 false, RPendingP)
       | (m2, RItem x) => (mkG t1 m2 (g_ret st) res1 false, RYielded x)
       | (m2, RClosed) => finish m2 true
       end.

(* FusedStream::is_terminated, async_generator.rs:199-201 *)
Definition is_terminated (st : gstate) : bool :=
  t_done (g_task st) && g_sterm st && match g_res st with None => true | Some _ => false end.

(* ------------------------------------------------------------------- runs *)
Definition init_m : mach := mkM [] false false true false [] None false [].
Definition init (p : program) : gstate :=
  mkG (mkT 0 (p_ops p) NotSent 0 false false) init_m (p_ret p) None false.

(* what the harness records for each poll *)
Record observation := Ob {
  o_wb : bool;               (* root waker woken between the end of the previous poll and this one (by a Complete) *)
  o_res : poll_result;
  o_wd : bool;               (* root waker woken during this poll *)
  o_done : list N;           (* operations whose await finished during this poll (code after them started) *)
  o_blocked : option N;      (* after this poll a Wait k future holds the root waker *)
  o_term : bool              (* FusedStream::is_terminated after this poll *)
}.

Definition with_m (f : mach -> mach) (st : gstate) : gstate :=
  mkG (g_task st) (f (g_m st)) (g_ret st) (g_res st) (g_sterm st).

Definition observe (wb : bool) (r : poll_result) (st : gstate) : observation :=
  Ob wb r (m_woken (g_m st)) (m_log (g_m st)) (m_wait_reg (g_m st)) (is_terminated st).

(* observations paired with the state right after the poll (wake flag not yet cleared);
   a Poll clears the instrumentation before and the wake flag after *)
Fixpoint run_full (st : gstate) (s : schedule) : list (observation * gstate) :=
  match s with
  | [] => []
  | Complete k :: s' => run_full (with_m (complete_m k) st) s'
  | Poll :: s' =>
      let '(st1, r) := poll_next (with_m (fun m => set_log [] (set_woken false m)) st) in
      (observe (m_woken (g_m st)) r st1, st1) :: run_full (with_m (set_woken false) st1) s'
  end.

Definition run_from (st : gstate) (s : schedule) : list observation := map fst (run_full st s).
Definition run (p : program) (s : schedule) : list observation := run_from (init p) s.

(* --------------------------------------------- into_yielded / into_complete *)
(* Both wrap the generator in StreamExt::filter_map with an immediately ready
   future (futures-util stream/stream/filter_map.rs): poll the inner stream;
   an item mapped to None is dropped and the inner stream is polled again at once. *)

(* async_generator.rs:150-152  self.filter_map(|state| ready(state.into_yielded()))
   Complete(()) is filtered out, the next inner poll returns None. *)
Definition poll_into_yielded (st : gstate) : gstate * poll_result :=
  let '(st1, r) := poll_next st in
  match r with
  | RComplete _ => poll_next st1
  | _ => (st1, r)
  end.

(* async_generator.rs:134-141  filter_map(into_complete), then s.next().await.unwrap():
   yielded items are dropped and the generator is polled again within the same poll.
   `None` from the inner stream would make unwrap panic; fuel bounds the loop
   (theorem: fuel > number of emissions is never exhausted and None is never reached). *)
Inductive cpoll := CPending | CReady (r : N) | CNone | COutOfFuel.

Fixpoint poll_into_complete (fuel : nat) (st : gstate) : gstate * cpoll :=
  let '(st1, r) := poll_next st in
  match r with
  | RPendingP => (st1, CPending)
  | RComplete v => (st1, CReady v)
  | RStreamEnd => (st1, CNone)
  | RYielded _ => match fuel with O => (st1, COutOfFuel) | S f => poll_into_complete f st1 end
  end.

Inductive mode := MRaw | MYielded | MComplete.

Definition cpoll_result (c : cpoll) : poll_result :=
  match c with CPending => RPendingP | CReady v => RComplete v | CNone => RStreamEnd | COutOfFuel => RStreamEnd end.

Definition poll_mode (md : mode) (fuel : nat) (st : gstate) : gstate * poll_result :=
  match md with
  | MRaw => poll_next st
  | MYielded => poll_into_yielded st
  | MComplete => let '(st1, c) := poll_into_complete fuel st in (st1, cpoll_result c)
  end.

(* the wrapper's own is_terminated: FilterMap = inner is_terminated (no pending future);
   the into_complete future has none (recorded as false) *)
Definition term_mode (md : mode) (st : gstate) : bool :=
  match md with MComplete => false | _ => is_terminated st end.

Fixpoint run_mode_full (md : mode) (fuel : nat) (st : gstate) (s : schedule) : list (observation * gstate) :=
  match s with
  | [] => []
  | Complete k :: s' => run_mode_full md fuel (with_m (complete_m k) st) s'
  | Poll :: s' =>
      let '(st1, r) := poll_mode md fuel (with_m (fun m => set_log [] (set_woken false m)) st) in
      (Ob (m_woken (g_m st)) r (m_woken (g_m st1)) (m_log (g_m st1)) (m_wait_reg (g_m st1)) (term_mode md st1), st1)
      :: run_mode_full md fuel (with_m (set_woken false) st1) s'
  end.

Definition run_mode (md : mode) (p : program) (s : schedule) : list observation :=
  map fst (run_mode_full md (S (length (emits (p_ops p)))) (init p) s).
