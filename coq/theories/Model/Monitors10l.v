(* Model/Monitors10l.v — a lost event is recorded only for an exchange that failed (clause of C10: "a failed
   event-report exchange is recorded as a lost event"; the converse is what this monitor adds: no report is written off
   without having been attempted).  When the configuration lets every request be built (valid service URL, updater
   name and app ids acceptable as header values), a lost-event metric may only follow a request whose exchange failed
   (transport error, status outside 2xx, or - with CUP - an unauthenticated response): the latest request on the wire
   must be a failed one.  When requests cannot be built at all, every report is lost without a request and the
   monitor accepts. *)
Require Import Verif.Model.Time Verif.Base.Bytes Verif.Model.Version Verif.Model.Json Verif.Model.Proto
               Verif.Model.Request Verif.Model.Env Verif.Model.SM Verif.Model.Monitors.

Record q10l := { strict10l : bool; cup10l : bool; armed10l : bool }.
Definition step10l (q : q10l) (a : action) : option q10l :=
  match a with
  | AHttp _ o => Some {| strict10l := strict10l q; cup10l := cup10l q; armed10l := negb (delivered (cup10l q) o) |}
  | AMetric (MOmahaEventLost _) => if strict10l q && negb (armed10l q) then None else Some q
  | _ => Some q
  end.
Definition buildable (cfg : config) (url : urlparts) (apps : list app) : bool :=
  u_valid url && header_value_ok (cfg_name cfg) && forallb (fun a => header_value_ok (a_id a)) apps.
Definition init10l (cfg : config) (url : urlparts) (cup : option N) (apps : list app) : q10l :=
  {| strict10l := buildable cfg url apps; cup10l := match cup with Some _ => true | None => false end; armed10l := false |}.
