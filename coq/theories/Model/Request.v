(* Model/Request.v — request_builder.rs (107-136, 183-394) and the serde
   output of protocol/request.rs (35-260). *)
Require Import Verif.Base.Bytes Verif.Model.Version Verif.Model.Json Verif.Model.Proto.
Open Scope N_scope.

(* request_builder.rs:63-83 AppEntry *)
Record entry := { e_app : app; e_uc : option (bool * bool); e_ping : bool; e_events : list event }.
Definition entry_new (a : app) : entry := {| e_app := a; e_uc := None; e_ping := false; e_events := [] |}.

Inductive op := OpUpdateCheck (a : app) | OpPing (a : app) | OpEvent (a : app) (e : event).
Definition op_app (o : op) : app := match o with OpUpdateCheck a | OpPing a | OpEvent a _ => a end.

Record builder := { b_params : params; b_entries : list entry; b_reqid : option bytes; b_sessid : option bytes }.
Definition builder_new (p : params) : builder :=
  {| b_params := p; b_entries := []; b_reqid := None; b_sessid := None |}.

(* request_builder.rs:144-160 insert_and_modify_entry *)
Fixpoint insert_and_modify (es : list entry) (a : app) (f : entry -> entry) : list entry :=
  match es with
  | [] => [f (entry_new a)]
  | e :: r => if bytes_eqb (a_id (e_app e)) (a_id a) then f e :: r else e :: insert_and_modify r a f
  end.

Definition apply_op (p : params) (es : list entry) (o : op) : list entry :=
  match o with
  | OpUpdateCheck a =>
      insert_and_modify es a (fun e => {| e_app := e_app e; e_uc := Some (p_disable p, p_samever p); e_ping := e_ping e; e_events := e_events e |})
  | OpPing a =>
      insert_and_modify es a (fun e => {| e_app := e_app e; e_uc := e_uc e; e_ping := true; e_events := e_events e |})
  | OpEvent a ev =>
      insert_and_modify es a (fun e => {| e_app := e_app e; e_uc := e_uc e; e_ping := e_ping e; e_events := e_events e ++ [ev] |})
  end.

Definition add_ops (b : builder) (ops : list op) : builder :=
  {| b_params := b_params b; b_entries := fold_left (apply_op (b_params b)) ops (b_entries b);
     b_reqid := b_reqid b; b_sessid := b_sessid b |}.
Definition set_request_id (b : builder) (g : bytes) : builder :=
  {| b_params := b_params b; b_entries := b_entries b; b_reqid := Some g; b_sessid := b_sessid b |}.
Definition set_session_id (b : builder) (g : bytes) : builder :=
  {| b_params := b_params b; b_entries := b_entries b; b_reqid := b_reqid b; b_sessid := Some g |}.

(* ---- serde output ---- *)
Definition js (s : bytes) : json := JStr true s.
Definition jk (k : string) (v : json) : bytes * bool * json := (s2b k, true, v).
Definition jopt {A} (k : string) (f : A -> json) (o : option A) : list (bytes * bool * json) :=
  match o with Some x => [jk k (f x)] | None => [] end.

Definition json_of_cohort (c : cohort) : list (bytes * bool * json) :=
  jopt "cohort" js (c_id c) ++ jopt "cohorthint" js (c_hint c) ++ jopt "cohortname" js (c_name c).

Definition json_of_event (e : event) : json :=
  JObj ([jk "eventtype" (JInt false (etype_code (ev_type e)));
         jk "eventresult" (JInt false (eresult_code (ev_result e)))]
        ++ jopt "errorcode" (fun x => JInt false (eerr_code x)) (ev_err e)
        ++ jopt "previousversion" js (ev_prev e)
        ++ jopt "nextversion" js (ev_next e)
        ++ jopt "download_time_ms" (JInt false) (ev_dl e)).

Definition json_of_uc (u : bool * bool) : json :=
  JObj ((if fst u then [jk "updatedisabled" (JBool true)] else [])
        ++ (if snd u then [jk "sameversionupdate" (JBool true)] else [])).

(* request_builder.rs:85-113 From<AppEntry> + serde of protocol::request::App *)
Definition json_of_entry (e : entry) : json :=
  let a := e_app e in
  JObj ([jk "appid" (js (a_id a)); jk "version" (js (Version.print (a_ver a)))]
        ++ jopt "fp" js (a_fp a)
        ++ json_of_cohort (a_cohort a)
        ++ jopt "updatecheck" json_of_uc (e_uc e)
        ++ (match e_events e with [] => [] | evs => [jk "event" (JArr (map json_of_event evs))] end)
        ++ (if e_ping e
            then [jk "ping" (JObj (jopt "ad" (JInt false) (a_uc a) ++ jopt "rd" (JInt false) (a_uc a)))]
            else [])
        ++ map (fun kv => (fst kv, true, js (snd kv))) (a_extra a)).

Definition source_text (s : isource) : bytes :=
  match s with OnDemand => s2b "ondemand" | ScheduledTask => s2b "scheduledtask" end.

Definition json_of_request (cfg : config) (b : builder) : json :=
  JObj [jk "request"
    (JObj ([jk "protocol" (js (s2b "3.0"));
            jk "updater" (js (cfg_name cfg));
            jk "updaterversion" (js (Version.print (cfg_uver cfg)));
            jk "installsource" (js (source_text (p_source (b_params b))));
            jk "ismachine" (JBool true)]
           ++ jopt "requestid" js (b_reqid b)
           ++ jopt "sessionid" js (b_sessid b)
           ++ [jk "os" (JObj [jk "platform" (js (os_platform cfg)); jk "version" (js (os_version cfg));
                              jk "sp" (js (os_sp cfg)); jk "arch" (js (os_arch cfg))]);
               jk "app" (JArr (map json_of_entry (b_entries b)))]))].

Definition body_of (cfg : config) (b : builder) : bytes := print_json (json_of_request cfg b).

(* request_builder.rs:253-284 headers; names as http::HeaderName normalises them (lower case) *)
Definition headers_of (cfg : config) (b : builder) : list (bytes * bytes) :=
  [(s2b "content-type", s2b "application/json");
   (s2b "x-goog-update-updater", cfg_name cfg);
   (s2b "x-goog-update-interactivity", match p_source (b_params b) with OnDemand => s2b "fg" | ScheduledTask => s2b "bg" end)]
  ++ match b_entries b with e :: _ => [(s2b "x-goog-update-appid", a_id (e_app e))] | [] => [] end.

(* http::HeaderValue::try_from(String): visible ASCII, tab, or obs-text *)
Definition header_value_ok (v : bytes) : bool :=
  forallb (fun b => ((32 <=? b) && negb (b =? 127)) || (b =? 9)) v.
Definition headers_ok (cfg : config) (b : builder) : bool :=
  forallb (fun kv => header_value_ok (snd kv)) (headers_of cfg b).

(* ---- the declarative spec (from the property text) ---- *)
Fixpoint first_ids (ops : list op) (seen : list bytes) : list app :=
  match ops with
  | [] => []
  | o :: r =>
      let a := op_app o in
      if existsb (bytes_eqb (a_id a)) seen then first_ids r seen
      else a :: first_ids r (a_id a :: seen)
  end.

Definition spec_entry (p : params) (ops : list op) (a : app) : entry :=
  let mine := filter (fun o => bytes_eqb (a_id (op_app o)) (a_id a)) ops in
  {| e_app := a;
     e_uc := if existsb (fun o => match o with OpUpdateCheck _ => true | _ => false end) mine
             then Some (p_disable p, p_samever p) else None;
     e_ping := existsb (fun o => match o with OpPing _ => true | _ => false end) mine;
     e_events := flat_map (fun o => match o with OpEvent _ e => [e] | _ => [] end) mine |}.

Definition spec_entries (p : params) (ops : list op) : list entry :=
  map (spec_entry p ops) (first_ids ops []).
