(* Model/Env.v — the environment of the state machine: scripts (answers and
   stimuli supplied by the embedder's trait implementations), the observable
   trace, storage, and the state-and-writer monad the model runs in. *)
Require Import Verif.Model.Time Verif.Base.Bytes Verif.Model.Version Verif.Model.Json Verif.Model.Proto.
Open Scope Z_scope.

(* ---------- storage (storage.rs trait contract; harness storage mirrors this) ---------- *)
Inductive sval := VInt (z : Z) | VStr (s : bytes) | VBool (b : bool).
Definition smap := list (bytes * sval).

Fixpoint sm_get (m : smap) (k : bytes) : option sval :=
  match m with
  | [] => None
  | (k', v) :: r => if bytes_eqb k' k then Some v else sm_get r k
  end.
Fixpoint sm_remove (m : smap) (k : bytes) : smap :=
  match m with
  | [] => []
  | (k', v) :: r => if bytes_eqb k' k then sm_remove r k else (k', v) :: sm_remove r k
  end.
Definition sm_set (m : smap) (k : bytes) (v : sval) : smap := (k, v) :: sm_remove m k.

Record storage := { pend : smap; comm : smap; opn : N }.

(* ---------- schedule / protocol state (common.rs) ---------- *)
Record timing := { t_time : pct; t_min : option Z }.               (* CheckTiming; minimum_wait in ns *)
Record sched := { s_last_update : option pct; s_last_check : option pct; s_next : option timing }.
Record pstate := { ps_poll : option Z (* ns *); ps_fails : Z (* u32 *); ps_proxied : Z }.

(* ---------- policy answers ---------- *)
Inductive decision := DOk (p : params) | DOkDeferred (p : params) | DTooSoon | DThrottled | DDenied.
Inductive udecision := UOk | UDeferred | UDenied.

(* ---------- HTTP outcomes ---------- *)
Inductive terr := TUser | TTransport | TTimeout.
Record rapp := {
  r_id : bytes; r_cohort : cohort;
  r_uc : option (bool * option bytes)   (* updatecheck present: (status is "ok", manifest version) *) }.
Record doc := { d_daystart : option (option N); d_apps : list rapp }.
Inductive body := BDoc (d : doc) | BBad.
Inductive http_outcome :=
| HErr (k : terr)
| HResp (status : N) (retry_after : option bytes) (authentic : bool) (b : body).

(* ---------- installer answers ---------- *)
Inductive ares := RInstalled | RDeferred | RFailed.
Record perform_answer := { pa_progress : list N; pa_results : list ares }.

(* ---------- stimuli at blocking points ---------- *)
Inductive stimulus := Fire (i : nat) | Control (src : isource) | DropHandles.

(* ---------- observable actions ---------- *)
Inductive state := Idle | CheckingForUpdates (s : isource) | ErrorCheckingForUpdate | NoUpdateAvailable
                 | InstallationDeferredByPolicy | InstallingUpdate | WaitingForReboot | InstallationError.
Inductive uaction := ANoUpdate | ADeferredByPolicy | ADeniedByPolicy | AInstallPlanExecutionError | AUpdated.
Record app_response := { ar_id : bytes; ar_cohort : cohort; ar_uc : option N; ar_result : uaction }.
Inductive req_err := REJson | REHttpBuilder | RECupDecoration | RECupValidation | REHttpTransport (k : terr) | REHttpStatus (code : N).
Inductive check_err := CEOmahaRequest (e : req_err) | CEResponseParser | CEInstallPlan.

Inductive sm_event :=
| EvState (s : state) | EvSchedule (s : sched) | EvProtocol (p : pstate)
| EvResult (r : check_err + list app_response)
| EvProgress (bits : N) | EvServerResponse (d : doc) | EvInstallerError.

Inductive metric :=
| MResponseTime (d : Z) (ok : bool) | MCheckInterval (d : Z) (mono_clock : bool) (src : isource)
| MSuccessfulUpdateDuration (d : Z) | MSuccessfulUpdateFromFirstSeen (d : Z) | MFailedUpdateDuration (d : Z)
| MFailureReason (r : N)          (* 0 Omaha, 1 Network, 4 Internal *)
| MRequestsPerCheck (count : Z) (ok : bool) | MAttemptsToSuccessfulCheck (n : Z)
| MAttemptsToSuccessfulInstall (n : Z) (ok : bool) | MWaitedForReboot (d : Z) | MOmahaEventLost (e : event).

Inductive pquery :=
| QNextTime (apps : list app) (s : sched) (p : pstate)
| QCheckAllowed (apps : list app) (s : sched) (p : pstate) (src : isource)
| QCanStart (plan : bytes) | QRebootAllowed (src : isource) | QRebootNeeded (plan : bytes).

Inductive icall :=
| ICreatePlan (p : params) (meta_matches_wire : option bool) (d : doc) (has_sig : bool)
| IPerform (plan : bytes) | IReboot.

(* answers of the environment are part of the trace: the trace is a complete interaction history *)
Inductive panswer := PTiming (t : timing) | PDecision (d : decision) | PUDecision (u : udecision) | PBool (b : bool).
Inductive ianswer := IPlan (p : option bytes) | IPerformed (a : perform_answer) | IRebooted (ok : bool).

Inductive wait := WUntil (t : pct) | WFor (d : Z).
Inductive store_op := SSetInt (k : bytes) (v : Z) | SSetStr (k : bytes) (v : bytes) | SRemove (k : bytes) | SCommit.
Inductive reply := Started | AlreadyRunning | Throttled.

(* a request on the wire: the bytes, plus the structured content of the body (what the harness reads back by
   parsing the JSON it received; what the model computes from the builder) *)
Record wapp := {
  wa_id : bytes; wa_cohort : cohort;
  wa_uc : option (bool * bool);                   (* updatecheck: (updatedisabled, sameversionupdate) *)
  wa_ping : option (option N * option N);         (* ping: (ad, rd) *)
  wa_events : list (N * N * option N * option bytes * option bytes) (* type, result, errorcode, previous, next version *) }.
Record wsum := { ws_source : isource; ws_session : option bytes; ws_request : option bytes; ws_apps : list wapp }.
Record wire := { w_uri : bytes; w_headers : list (bytes * bytes); w_body : bytes; w_sum : wsum }.

Inductive action :=
| AEvent (e : sm_event) | APolicy (q : pquery) (a : panswer) | AHttp (w : wire) (o : http_outcome)
| AInstaller (c : icall) (a : ianswer) | AClock (c : ctime)
| ATimer (w : wait) | AStore (op : store_op) (ok : bool) | AMetric (m : metric)
| ARequest (id : N) (src : isource)      (* a start-update-check request is sent through a control handle *)
| AReply (id : N) (r : reply).

(* ---------- control requests that arrive between polls ---------- *)
Record ctlst := {
  c_inject : list (N * isource);   (* (k, src): a request is sent right after the k-th event has been delivered *)
  c_evn : N;                        (* events delivered so far *)
  c_inq : list (N * isource);       (* requests sent but not yet seen by a select (id, source), oldest first *)
  c_incheck : bool;                 (* inside the select loop that surrounds an update check *)
  c_upg : bool                      (* an on-demand request arrived during the check *) }.
Definition ctl0 (inj : list (N * isource)) : ctlst :=
  {| c_inject := inj; c_evn := 0%N; c_inq := []; c_incheck := false; c_upg := false |}.

(* ---------- the environment ---------- *)
Record env := {
  e_clock : list (Z * Z);        (* successive readings of the time source (wall ns, mono ns); last one repeats *)
  e_last_clock : Z * Z;
  e_store : storage; e_faults : list N;
  q_next_time : list timing; q_allowed : list decision; q_can_start : list udecision;
  q_reboot_needed : list bool; q_reboot_allowed : list bool;
  q_http : list http_outcome; q_plan : list (option bytes); q_perform : list perform_answer;
  q_reboot : list bool;
  q_backoff : list Z;            (* rand::random::<u64>() draws used by randomize() *)
  e_stim : list stimulus; e_ctl : N;     (* next control-request id *)
  e_cs : ctlst;
  e_draws : N;                   (* GUID draws so far *)
  e_guids : list (N * N);        (* draw -> canonical index, assigned at first appearance on the wire *)
  e_nonces : N;                  (* CUP nonces used so far (each request draws a fresh one) *)
  e_trace : list action          (* reversed *)
}.

(* M A: None = the consumer dropped the stream (no stimulus left at a blocking point) *)
Definition M (A : Type) := env -> option A * env.
Definition ret {A} (a : A) : M A := fun e => (Some a, e).
Definition bind {A B} (m : M A) (f : A -> M B) : M B :=
  fun e => match m e with (Some a, e') => f a e' | (None, e') => (None, e') end.
Definition halt {A} : M A := fun e => (None, e).
Notation "x <- m ;; f" := (bind m (fun x => f)) (at level 61, m at next level, right associativity).
Notation "m ;;; f" := (bind m (fun _ => f)) (at level 61, right associativity).

Definition upd_trace (e : env) (t : list action) : env :=
  {| e_clock := e_clock e; e_last_clock := e_last_clock e; e_store := e_store e; e_faults := e_faults e;
     q_next_time := q_next_time e; q_allowed := q_allowed e; q_can_start := q_can_start e;
     q_reboot_needed := q_reboot_needed e; q_reboot_allowed := q_reboot_allowed e;
     q_http := q_http e; q_plan := q_plan e; q_perform := q_perform e; q_reboot := q_reboot e;
     q_backoff := q_backoff e; e_stim := e_stim e; e_ctl := e_ctl e; e_cs := e_cs e;
     e_draws := e_draws e; e_guids := e_guids e; e_nonces := e_nonces e; e_trace := t |}.

Definition emit (a : action) : M unit := fun e => (Some tt, upd_trace e (a :: e_trace e)).

(* --- clock --- *)
Definition read_clock : M ctime := fun e =>
  match e_clock e with
  | r :: rest =>
      (Some {| wall := fst r; mono := snd r |},
       {| e_clock := rest; e_last_clock := r; e_store := e_store e; e_faults := e_faults e;
          q_next_time := q_next_time e; q_allowed := q_allowed e; q_can_start := q_can_start e;
          q_reboot_needed := q_reboot_needed e; q_reboot_allowed := q_reboot_allowed e;
          q_http := q_http e; q_plan := q_plan e; q_perform := q_perform e; q_reboot := q_reboot e;
          q_backoff := q_backoff e; e_stim := e_stim e; e_ctl := e_ctl e; e_cs := e_cs e;
          e_draws := e_draws e; e_guids := e_guids e; e_nonces := e_nonces e; e_trace := e_trace e |})
  | [] => (Some {| wall := fst (e_last_clock e); mono := snd (e_last_clock e) |}, e)
  end.
(* every reading of the time source is recorded in the trace *)
Definition now : M ctime := c <- read_clock ;; emit (AClock c) ;;; ret c.

(* --- answer queues: pop with a default once exhausted --- *)
Definition set_queues (e : env) nt al cs rn ra ht pl pf rb bo : env :=
  {| e_clock := e_clock e; e_last_clock := e_last_clock e; e_store := e_store e; e_faults := e_faults e;
     q_next_time := nt; q_allowed := al; q_can_start := cs; q_reboot_needed := rn; q_reboot_allowed := ra;
     q_http := ht; q_plan := pl; q_perform := pf; q_reboot := rb; q_backoff := bo;
     e_stim := e_stim e; e_ctl := e_ctl e; e_cs := e_cs e;
     e_draws := e_draws e; e_guids := e_guids e; e_nonces := e_nonces e; e_trace := e_trace e |}.

Definition default_timing : timing := {| t_time := PMono 0; t_min := None |}.

Definition pop_next_time : M timing := fun e =>
  match q_next_time e with
  | x :: r => (Some x, set_queues e r (q_allowed e) (q_can_start e) (q_reboot_needed e) (q_reboot_allowed e) (q_http e) (q_plan e) (q_perform e) (q_reboot e) (q_backoff e))
  | [] => (Some default_timing, e) end.
Definition pop_allowed : M decision := fun e =>
  match q_allowed e with
  | x :: r => (Some x, set_queues e (q_next_time e) r (q_can_start e) (q_reboot_needed e) (q_reboot_allowed e) (q_http e) (q_plan e) (q_perform e) (q_reboot e) (q_backoff e))
  | [] => (Some (DOk params_default), e) end.
Definition pop_can_start : M udecision := fun e =>
  match q_can_start e with
  | x :: r => (Some x, set_queues e (q_next_time e) (q_allowed e) r (q_reboot_needed e) (q_reboot_allowed e) (q_http e) (q_plan e) (q_perform e) (q_reboot e) (q_backoff e))
  | [] => (Some UOk, e) end.
Definition pop_reboot_needed : M bool := fun e =>
  match q_reboot_needed e with
  | x :: r => (Some x, set_queues e (q_next_time e) (q_allowed e) (q_can_start e) r (q_reboot_allowed e) (q_http e) (q_plan e) (q_perform e) (q_reboot e) (q_backoff e))
  | [] => (Some false, e) end.
Definition pop_reboot_allowed : M bool := fun e =>
  match q_reboot_allowed e with
  | x :: r => (Some x, set_queues e (q_next_time e) (q_allowed e) (q_can_start e) (q_reboot_needed e) r (q_http e) (q_plan e) (q_perform e) (q_reboot e) (q_backoff e))
  | [] => (Some true, e) end.
Definition pop_http : M http_outcome := fun e =>
  match q_http e with
  | x :: r => (Some x, set_queues e (q_next_time e) (q_allowed e) (q_can_start e) (q_reboot_needed e) (q_reboot_allowed e) r (q_plan e) (q_perform e) (q_reboot e) (q_backoff e))
  | [] => (Some (HErr TTransport), e) end.
Definition pop_plan : M (option bytes) := fun e =>
  match q_plan e with
  | x :: r => (Some x, set_queues e (q_next_time e) (q_allowed e) (q_can_start e) (q_reboot_needed e) (q_reboot_allowed e) (q_http e) r (q_perform e) (q_reboot e) (q_backoff e))
  | [] => (Some None, e) end.
Definition pop_perform : M perform_answer := fun e =>
  match q_perform e with
  | x :: r => (Some x, set_queues e (q_next_time e) (q_allowed e) (q_can_start e) (q_reboot_needed e) (q_reboot_allowed e) (q_http e) (q_plan e) r (q_reboot e) (q_backoff e))
  | [] => (Some {| pa_progress := []; pa_results := [RInstalled; RInstalled; RInstalled; RInstalled; RInstalled] |}, e) end.
Definition pop_reboot : M bool := fun e =>
  match q_reboot e with
  | x :: r => (Some x, set_queues e (q_next_time e) (q_allowed e) (q_can_start e) (q_reboot_needed e) (q_reboot_allowed e) (q_http e) (q_plan e) (q_perform e) r (q_backoff e))
  | [] => (Some true, e) end.
Definition pop_backoff : M Z := fun e =>
  match q_backoff e with
  | x :: r => (Some x, set_queues e (q_next_time e) (q_allowed e) (q_can_start e) (q_reboot_needed e) (q_reboot_allowed e) (q_http e) (q_plan e) (q_perform e) (q_reboot e) r)
  | [] => (Some 0, e) end.

(* --- stimuli --- *)
Definition set_stim (e : env) (s : list stimulus) (c : N) : env :=
  {| e_clock := e_clock e; e_last_clock := e_last_clock e; e_store := e_store e; e_faults := e_faults e;
     q_next_time := q_next_time e; q_allowed := q_allowed e; q_can_start := q_can_start e;
     q_reboot_needed := q_reboot_needed e; q_reboot_allowed := q_reboot_allowed e;
     q_http := q_http e; q_plan := q_plan e; q_perform := q_perform e; q_reboot := q_reboot e;
     q_backoff := q_backoff e; e_stim := s; e_ctl := c; e_cs := e_cs e;
     e_draws := e_draws e; e_guids := e_guids e; e_nonces := e_nonces e; e_trace := e_trace e |}.

Definition pop_stim : M stimulus := fun e =>
  match e_stim e with
  | [] => (None, e)                        (* nothing left to drive the machine: the stream is dropped *)
  | s :: r => (Some s, set_stim e r (e_ctl e))
  end.
Definition next_ctl : M N := fun e => (Some (e_ctl e), set_stim e (e_stim e) (e_ctl e + 1)%N).

(* --- control requests arriving between polls --- *)
Definition set_cs (e : env) (c : ctlst) (ctl : N) : env :=
  {| e_clock := e_clock e; e_last_clock := e_last_clock e; e_store := e_store e; e_faults := e_faults e;
     q_next_time := q_next_time e; q_allowed := q_allowed e; q_can_start := q_can_start e;
     q_reboot_needed := q_reboot_needed e; q_reboot_allowed := q_reboot_allowed e;
     q_http := q_http e; q_plan := q_plan e; q_perform := q_perform e; q_reboot := q_reboot e;
     q_backoff := q_backoff e; e_stim := e_stim e; e_ctl := ctl; e_cs := c;
     e_draws := e_draws e; e_guids := e_guids e; e_nonces := e_nonces e; e_trace := e_trace e |}.

Definition is_ondemand (s : isource) : bool := match s with OnDemand => true | ScheduledTask => false end.

(* after an event has been delivered to the consumer, the next scripted request that is due (index <= events
   delivered) is sent through a handle — except right after the check's result, where the real select's branch
   order is random.
   During a check it is seen by the select around the check in the very next poll (reply AlreadyRunning, an
   on-demand request upgrades the check's options); otherwise it waits for the next select. *)
Definition after_event (is_result : bool) : M unit := fun e =>
  let cs := e_cs e in
  let k := c_evn cs in
  match c_inject cs with
  | (k0, src) :: rest =>
      if (k0 <=? k)%N && negb is_result then
        let id := e_ctl e in
        if c_incheck cs then
          (Some tt, upd_trace (set_cs e {| c_inject := rest; c_evn := (k + 1)%N; c_inq := c_inq cs; c_incheck := true;
                                           c_upg := c_upg cs || is_ondemand src |} (id + 1)%N)
                              (AReply id AlreadyRunning :: ARequest id src :: e_trace e))
        else
          (Some tt, upd_trace (set_cs e {| c_inject := rest; c_evn := (k + 1)%N; c_inq := c_inq cs ++ [(id, src)]; c_incheck := false;
                                           c_upg := c_upg cs |} (id + 1)%N)
                              (ARequest id src :: e_trace e))
      else (Some tt, set_cs e {| c_inject := c_inject cs; c_evn := (k + 1)%N; c_inq := c_inq cs; c_incheck := c_incheck cs; c_upg := c_upg cs |} (e_ctl e))
  | [] => (Some tt, set_cs e {| c_inject := []; c_evn := (k + 1)%N; c_inq := c_inq cs; c_incheck := c_incheck cs; c_upg := c_upg cs |} (e_ctl e))
  end.

Definition pop_queued : M (option (N * isource)) := fun e =>
  let cs := e_cs e in
  match c_inq cs with
  | [] => (Some None, e)
  | x :: r => (Some (Some x), set_cs e {| c_inject := c_inject cs; c_evn := c_evn cs; c_inq := r; c_incheck := c_incheck cs; c_upg := c_upg cs |} (e_ctl e))
  end.
Definition set_incheck (b : bool) : M unit := fun e =>
  let cs := e_cs e in
  (Some tt, set_cs e {| c_inject := c_inject cs; c_evn := c_evn cs; c_inq := c_inq cs; c_incheck := b; c_upg := c_upg cs |} (e_ctl e)).
(* entering the select loop around a check: requests already sent are all answered AlreadyRunning in that first poll *)
Definition enter_check : M unit := fun e =>
  let cs := e_cs e in
  let replies := map (fun x => AReply (fst x) AlreadyRunning) (c_inq cs) in
  (Some tt, upd_trace (set_cs e {| c_inject := c_inject cs; c_evn := c_evn cs; c_inq := []; c_incheck := true;
                                   c_upg := c_upg cs || existsb (fun x => is_ondemand (snd x)) (c_inq cs) |} (e_ctl e))
                      (rev replies ++ e_trace e)).

(* read and reset the "upgraded to on-demand during the check" flag *)
Definition take_upgrade : M bool := fun e =>
  let cs := e_cs e in
  (Some (c_upg cs), set_cs e {| c_inject := c_inject cs; c_evn := c_evn cs; c_inq := c_inq cs; c_incheck := c_incheck cs; c_upg := false |} (e_ctl e)).

(* --- GUIDs and nonces --- *)
Definition set_ids (e : env) (d : N) (g : list (N * N)) (n : N) : env :=
  {| e_clock := e_clock e; e_last_clock := e_last_clock e; e_store := e_store e; e_faults := e_faults e;
     q_next_time := q_next_time e; q_allowed := q_allowed e; q_can_start := q_can_start e;
     q_reboot_needed := q_reboot_needed e; q_reboot_allowed := q_reboot_allowed e;
     q_http := q_http e; q_plan := q_plan e; q_perform := q_perform e; q_reboot := q_reboot e;
     q_backoff := q_backoff e; e_stim := e_stim e; e_ctl := e_ctl e; e_cs := e_cs e;
     e_draws := d; e_guids := g; e_nonces := n; e_trace := e_trace e |}.

Definition fresh_guid : M N := fun e => (Some (e_draws e), set_ids e (e_draws e + 1)%N (e_guids e) (e_nonces e)).

Fixpoint glookup (g : list (N * N)) (d : N) : option N :=
  match g with [] => None | (d', c) :: r => if N.eqb d' d then Some c else glookup r d end.
Definition canon_guid (d : N) : M N := fun e =>
  match glookup (e_guids e) d with
  | Some c => (Some c, e)
  | None => let c := N.of_nat (length (e_guids e)) in
            (Some c, set_ids e (e_draws e) ((d, c) :: e_guids e) (e_nonces e))
  end.
Definition fresh_nonce : M N := fun e => (Some (e_nonces e), set_ids e (e_draws e) (e_guids e) (e_nonces e + 1)%N).

(* --- storage operations; every write operation has an index, those in e_faults fail --- *)
Definition set_store (e : env) (s : storage) : env :=
  {| e_clock := e_clock e; e_last_clock := e_last_clock e; e_store := s; e_faults := e_faults e;
     q_next_time := q_next_time e; q_allowed := q_allowed e; q_can_start := q_can_start e;
     q_reboot_needed := q_reboot_needed e; q_reboot_allowed := q_reboot_allowed e;
     q_http := q_http e; q_plan := q_plan e; q_perform := q_perform e; q_reboot := q_reboot e;
     q_backoff := q_backoff e; e_stim := e_stim e; e_ctl := e_ctl e; e_cs := e_cs e;
     e_draws := e_draws e; e_guids := e_guids e; e_nonces := e_nonces e; e_trace := e_trace e |}.

Definition faulty (e : env) : bool := existsb (N.eqb (opn (e_store e))) (e_faults e).

Definition st_write (op : store_op) : M bool := fun e =>
  let s := e_store e in
  let ok := negb (faulty e) in
  let s' :=
    if ok then
      match op with
      | SSetInt k v => {| pend := sm_set (pend s) k (VInt v); comm := comm s; opn := (opn s + 1)%N |}
      | SSetStr k v => {| pend := sm_set (pend s) k (VStr v); comm := comm s; opn := (opn s + 1)%N |}
      | SRemove k => {| pend := sm_remove (pend s) k; comm := comm s; opn := (opn s + 1)%N |}
      | SCommit => {| pend := pend s; comm := pend s; opn := (opn s + 1)%N |}
      end
    else {| pend := pend s; comm := comm s; opn := (opn s + 1)%N |} in
  (Some ok, upd_trace (set_store e s') (AStore op ok :: e_trace e)).

Definition st_get_int (k : bytes) : M (option Z) := fun e =>
  (Some (match sm_get (pend (e_store e)) k with Some (VInt z) => Some z | _ => None end), e).
Definition st_get_str (k : bytes) : M (option bytes) := fun e =>
  (Some (match sm_get (pend (e_store e)) k with Some (VStr s) => Some s | _ => None end), e).

(* StorageExt *)
Definition st_set_option_int (k : bytes) (v : option Z) : M bool :=
  match v with Some z => st_write (SSetInt k z) | None => st_write (SRemove k) end.
Definition st_set_time (k : bytes) (t : Z) : M bool := st_set_option_int k (to_micros t).
Definition st_get_time (k : bytes) : M (option Z) :=
  v <- st_get_int k ;; ret (match v with Some m => Some (from_micros m) | None => None end).

Fixpoint mapM {A B} (f : A -> M B) (l : list A) : M (list B) :=
  match l with
  | [] => ret []
  | x :: r => y <- f x ;; ys <- mapM f r ;; ret (y :: ys)
  end.
Fixpoint iterM {A} (f : A -> M unit) (l : list A) : M unit :=
  match l with
  | [] => ret tt
  | x :: r => f x ;;; iterM f r
  end.
