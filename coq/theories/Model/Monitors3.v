(* Model/Monitors3.v — the provable half of C03's monitor: every request on the wire is decorated (or, without a CUP
   handler, left alone).  Nonce freshness along a history and "exactly 64 digits" are checked at run time by step3
   (Model/Monitors.v); here the nonce is whatever follows the expected prefix, at least 64 hex digits. *)
Require Import Verif.Model.Time Verif.Base.Bytes Verif.Model.Version Verif.Model.Json Verif.Model.Proto
               Verif.Model.Request Verif.Model.Env Verif.Model.SM.
Open Scope N_scope.

Definition is_hex (c : N) : bool := ((48 <=? c) && (c <=? 57)) || ((97 <=? c) && (c <=? 102)).
(* scheme, authority, path and the old query untouched, then the one added parameter up to and including "<latest id>:" *)
Definition cup_prefix (u : urlparts) (kid : N) : bytes :=
  u_prefix u ++ append_query (u_path u) (u_query u) (s2b "cup2key") (print_dec kid ++ [58]).

Record q3a := { url3a : urlparts; kid3a : option N }.
Definition step3a (q : q3a) (a : action) : option q3a :=
  match a with
  | AHttp w _ =>
      match kid3a q with
      | Some kid =>
          let pre := cup_prefix (url3a q) kid in
          let nonce := skipn (length pre) (w_uri w) in
          if bytes_eqb (firstn (length pre) (w_uri w)) pre && Nat.leb 64 (length nonce) && forallb is_hex nonce
          then Some q else None
      | None => if bytes_eqb (w_uri w) (plain_uri (url3a q)) then Some q else None
      end
  | AInstaller (ICreatePlan _ meta _ has_sig) _ =>
      (* the metadata handed to the installer is the one of the exchange (flag computed by the harness by comparing it
         with the bytes and the URL it saw on the wire), and a signature is present exactly with CUP *)
      match kid3a q, meta with
      | Some _, Some true => if has_sig then Some q else None
      | None, None => if has_sig then None else Some q
      | _, _ => None
      end
  | _ => Some q
  end.
Definition init3a (url : urlparts) (cup : option N) : q3a := {| url3a := url; kid3a := cup |}.

(* ---- step3f: step3a plus "no nonce is ever used twice".  The nonce of a request is whatever follows the expected
   prefix; it must differ from the nonce of every earlier request of the history (update checks, retries, event reports,
   pings alike). ---- *)
Record q3f := { url3f : urlparts; kid3f : option N; seen3f : list bytes }.
Definition step3f (q : q3f) (a : action) : option q3f :=
  match a with
  | AHttp w _ =>
      match kid3f q with
      | Some kid =>
          let pre := cup_prefix (url3f q) kid in
          let nonce := skipn (length pre) (w_uri w) in
          if bytes_eqb (firstn (length pre) (w_uri w)) pre && Nat.leb 64 (length nonce) && forallb is_hex nonce
             && negb (existsb (bytes_eqb nonce) (seen3f q))
          then Some {| url3f := url3f q; kid3f := kid3f q; seen3f := nonce :: seen3f q |} else None
      | None => if bytes_eqb (w_uri w) (plain_uri (url3f q)) then Some q else None
      end
  | AInstaller (ICreatePlan _ meta _ has_sig) _ =>
      match kid3f q, meta with
      | Some _, Some true => if has_sig then Some q else None
      | None, None => if has_sig then None else Some q
      | _, _ => None
      end
  | _ => Some q
  end.
Definition init3f (url : urlparts) (cup : option N) : q3f := {| url3f := url; kid3f := cup; seen3f := [] |}.
