(* Model/Monitors18.v — run-time monitor for C18 (update-attempt bookkeeping across attempts and reboots).
   It simulates the storage view the state machine reads (failed writes change nothing, exactly as the Storage contract
   says) and checks every storage operation, metric and policy question that concerns the five bookkeeping keys. *)
Require Import Verif.Model.Time Verif.Base.Bytes Verif.Model.Version Verif.Model.Json Verif.Model.Proto
               Verif.Model.Request Verif.Model.Env Verif.Model.SM Verif.Model.Monitors.
Open Scope Z_scope.

Definition map_apply (m : smap) (op : store_op) : smap :=
  match op with
  | SSetInt k v => sm_set m k (VInt v)
  | SSetStr k v => sm_set m k (VStr v)
  | SRemove k => sm_remove m k
  | SCommit => m
  end.
Definition get_int (m : smap) (k : bytes) : option Z := match sm_get m k with Some (VInt z) => Some z | _ => None end.
Definition get_str (m : smap) (k : bytes) : option bytes := match sm_get m k with Some (VStr s) => Some s | _ => None end.
Definition get_time (m : smap) (k : bytes) : option Z := match get_int m k with Some us => Some (from_micros us) | None => None end.
Definition op_key (op : store_op) : option bytes :=
  match op with SSetInt k _ | SSetStr k _ | SRemove k => Some k | SCommit => None end.
Definition key_is (k : bytes) (op : store_op) : bool := match op_key op with Some k' => bytes_eqb k k' | None => false end.

(* did this install fail, succeed, or do nothing: some app failed / else some app updated / neither *)
Definition inst_outcome (rs : list app_response) : option bool :=
  if existsb (fun r => match ar_result r with AInstallPlanExecutionError => true | _ => false end) rs then Some false
  else if existsb (fun r => match ar_result r with AUpdated => true | _ => false end) rs then Some true
  else None.

Record q18 := {
  m18 : smap;                         (* what storage reads return now *)
  osver18 : bytes; sysid18 : bytes;      (* id of the system app: the first app of the set *)
  clk18 : option ctime;               (* latest clock reading *)
  (* wait-for-reboot report *)
  should18 : bool; fin018 : Z; start18 : option Z; rep18 : bool;
  todo18 : list store_op;             (* operations that must come next, in order (nothing else on the same keys) *)
  (* current check *)
  doc18 : option doc;
  planw18 : bool;                     (* the plan id was (re)written in this check *)
  fs18 : option Z;                    (* first-seen time in force for the running install *)
  perf18 : bool;                      (* the installer has run in this check *)
  fin18 : N;                          (* 0: finish time not written since the install; 1: written; 2: committed; 3: the storage refused an operation *)
  attm18 : option bool;               (* attempts metric reported in this check *)
  attw18 : option store_op            (* the counter write that must follow the attempts metric *)
}.
Definition set18 (q : q18) m clk rep todo doc planw fs perf fin attm attw : q18 :=
  {| m18 := m; osver18 := osver18 q; sysid18 := sysid18 q; clk18 := clk; should18 := should18 q; fin018 := fin018 q;
     start18 := start18 q; rep18 := rep; todo18 := todo; doc18 := doc; planw18 := planw; fs18 := fs; perf18 := perf;
     fin18 := fin; attm18 := attm; attw18 := attw |}.
Definition wallc (c : option ctime) : Z := match c with Some c => wall c | None => 0 end.

Definition step18 (q : q18) (a : action) : option q18 :=
  match a with
  | AClock c =>
      Some {| m18 := m18 q; osver18 := osver18 q; sysid18 := sysid18 q; clk18 := Some c; should18 := should18 q; fin018 := fin018 q;
              start18 := match start18 q with Some s => Some s | None => Some (mono c) end; rep18 := rep18 q; todo18 := todo18 q;
              doc18 := doc18 q; planw18 := planw18 q; fs18 := fs18 q; perf18 := perf18 q; fin18 := fin18 q; attm18 := attm18 q; attw18 := attw18 q |}
  | AStore op ok =>
      let m' := if ok then map_apply (m18 q) op else m18 q in
      let refused (r : option q18) : option q18 :=
        match r with
        | Some q' => Some (if ok then q' else set18 q' (m18 q') (clk18 q') (rep18 q') (todo18 q') (doc18 q') (planw18 q') (fs18 q') (perf18 q') 3%N (attm18 q') (attw18 q'))
        | None => None
        end in
      refused (
      (* 1. an operation that is owed must be exactly the next one on the bookkeeping keys *)
      match todo18 q with
      | x :: rest =>
          if store_op_eqb op x then Some (set18 q m' (clk18 q) (rep18 q) rest (doc18 q) (planw18 q) (fs18 q) (perf18 q) (fin18 q) (attm18 q) (attw18 q))
          else None
      | [] =>
          if key_is K_FAILED_INSTALLS op then
            match attw18 q with
            | Some x => if store_op_eqb op x then Some (set18 q m' (clk18 q) (rep18 q) [] (doc18 q) (planw18 q) (fs18 q) (perf18 q) (fin18 q) (attm18 q) None) else None
            | None => None          (* the counter is only written right after its metric *)
            end
          else if key_is K_INSTALL_PLAN_ID op then
            match op with
            | SSetStr _ p =>        (* reset only by a different plan *)
                if match get_str (m18 q) K_INSTALL_PLAN_ID with Some p0 => bytes_eqb p0 p | None => false end then None
                else Some (set18 q m' (clk18 q) (rep18 q) [] (doc18 q) true (fs18 q) (perf18 q) (fin18 q) (attm18 q) (attw18 q))
            | _ => Some (set18 q m' (clk18 q) (rep18 q) [] (doc18 q) (planw18 q) (fs18 q) (perf18 q) (fin18 q) (attm18 q) (attw18 q))
            end
          else if key_is K_FIRST_SEEN op then
            match op with
            | SSetInt _ v =>        (* only together with a new plan id, and it is the current time *)
                if planw18 q && match to_micros (wallc (clk18 q)) with Some us => us =? v | None => false end
                then Some (set18 q m' (clk18 q) (rep18 q) [] (doc18 q) (planw18 q) (fs18 q) (perf18 q) (fin18 q) (attm18 q) (attw18 q)) else None
            | _ => if planw18 q then Some (set18 q m' (clk18 q) (rep18 q) [] (doc18 q) (planw18 q) (fs18 q) (perf18 q) (fin18 q) (attm18 q) (attw18 q)) else None
            end
          else if key_is K_FINISH_TIME op then
            match op with
            | SSetInt _ v =>        (* the finish time of an install that has just run, as the current time *)
                if perf18 q && match to_micros (wallc (clk18 q)) with Some us => us =? v | None => false end
                then Some (set18 q m' (clk18 q) (rep18 q) [] (doc18 q) (planw18 q) (fs18 q) (perf18 q) 1%N (attm18 q) (attw18 q)) else None
            | SRemove _ => if perf18 q && match to_micros (wallc (clk18 q)) with Some _ => false | None => true end
                           then Some (set18 q m' (clk18 q) (rep18 q) [] (doc18 q) (planw18 q) (fs18 q) (perf18 q) 1%N (attm18 q) (attw18 q)) else None
            | _ => None
            end
          else if key_is K_TARGET_VERSION op then
            match op, doc18 q with
            | SSetStr _ v, Some d =>               (* the version the response offers the system app *)
                if perf18 q && existsb (fun o => bytes_eqb v (match o with Some x => x | None => s2b "UNKNOWN" end)) (offers d (sysid18 q))
                then Some (set18 q m' (clk18 q) (rep18 q) [] (doc18 q) (planw18 q) (fs18 q) (perf18 q) (fin18 q) (attm18 q) (attw18 q)) else None
            | _, _ => None
            end
          else match op with
               | SCommit => Some (set18 q m' (clk18 q) (rep18 q) [] (doc18 q) (planw18 q) (fs18 q) (perf18 q)
                                        (if (fin18 q =? 1)%N then 2%N else fin18 q) (attm18 q) (attw18 q))
               | _ => Some (set18 q m' (clk18 q) (rep18 q) [] (doc18 q) (planw18 q) (fs18 q) (perf18 q) (fin18 q) (attm18 q) (attw18 q))
               end
      end)
  | AMetric (MWaitedForReboot d) =>
      match start18 q, clk18 q with
      | Some s, Some c =>
          if should18 q && negb (rep18 q) && match waited_for_reboot (fin018 q) s c with Some d' => d' =? d | None => false end
          then Some (set18 q (m18 q) (clk18 q) true [SRemove K_FINISH_TIME; SRemove K_TARGET_VERSION; SCommit]
                           (doc18 q) (planw18 q) (fs18 q) (perf18 q) (fin18 q) (attm18 q) (attw18 q))
          else None
      | _, _ => None
      end
  | AMetric (MSuccessfulUpdateFromFirstSeen d) =>
      match fs18 q with
      | Some fs => if (fs <=? wallc (clk18 q)) && (d =? wallc (clk18 q) - fs) then Some q else None
      | None => None
      end
  | AMetric (MAttemptsToSuccessfulInstall n ok) =>
      let attempts := sat_inc_i64 (match get_int (m18 q) K_FAILED_INSTALLS with Some z => z | None => 0 end) in
      match attm18 q with
      | Some _ => None                                  (* once per check *)
      | None =>
          if n =? as_u64 attempts
          then Some (set18 q (m18 q) (clk18 q) (rep18 q) (todo18 q) (doc18 q) (planw18 q) (fs18 q) (perf18 q) (fin18 q) (Some ok)
                           (Some (if ok then SRemove K_FAILED_INSTALLS else SSetInt K_FAILED_INSTALLS attempts)))
          else None
      end
  | AEvent (EvState (CheckingForUpdates _)) =>
      Some (set18 q (m18 q) (clk18 q) (rep18 q) (todo18 q) None false None false 0%N None None)
  | AEvent (EvServerResponse d) =>
      Some (set18 q (m18 q) (clk18 q) (rep18 q) (todo18 q) (Some d) (planw18 q) (fs18 q) (perf18 q) (fin18 q) (attm18 q) (attw18 q))
  | AInstaller (IPerform plan) _ =>
      (* the plan being installed is the one on record, with its first-seen time *)
      (* either the id on record is this plan's, or it has just been (re)written - a refused write is the storage's doing *)
      if match get_str (m18 q) K_INSTALL_PLAN_ID with Some p0 => bytes_eqb p0 plan | None => false end || planw18 q then
        let fs := if planw18 q then wallc (clk18 q)
                  else match get_time (m18 q) K_FIRST_SEEN with Some x => x | None => wallc (clk18 q) end in
        Some (set18 q (m18 q) (clk18 q) (rep18 q) (todo18 q) (doc18 q) (planw18 q) (Some fs) true 0%N (attm18 q) (attw18 q))
      else None
  | APolicy (QRebootNeeded _) _ =>
      (* the finish time has been written and committed before the reboot is even considered (unless the storage refused) *)
      if (fin18 q =? 2)%N || (fin18 q =? 3)%N then Some q else None
  | AEvent (EvResult r) =>
      match attw18 q with
      | Some _ => None                                  (* the counter write is still owed *)
      | None =>
          match r with
          | inr rs => if match inst_outcome rs, attm18 q with
                         | Some b, Some b' => Bool.eqb b b'
                         | None, None => true
                         | _, _ => false end then Some q else None
          | inl _ => match attm18 q with None => Some q | Some _ => None end
          end
      end
  | _ => Some q
  end.

Definition init18 (cfg : config) (apps : list app) (st : storage) : q18 :=
  let m := pend st in
  {| m18 := m; osver18 := os_version cfg; sysid18 := match apps with a :: _ => a_id a | [] => [] end; clk18 := None;
     should18 := match get_time m K_FINISH_TIME, get_str m K_TARGET_VERSION with
                 | Some _, Some v => bytes_eqb v (os_version cfg) | _, _ => false end;
     fin018 := match get_time m K_FINISH_TIME with Some f => f | None => 0 end;
     start18 := None; rep18 := false; todo18 := []; doc18 := None; planw18 := false; fs18 := None; perf18 := false; fin18 := 0%N;
     attm18 := None; attw18 := None |}.
