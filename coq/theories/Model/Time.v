(* Model/Time.v — omaha-client/src/time.rs, time/complex.rs, storage.rs (time helpers)
   SystemTime  = Z nanoseconds since the UNIX epoch (negative before it)
   Instant     = Z nanoseconds relative to an arbitrary base
   Duration    = Z nanoseconds, non-negative
   std::time arithmetic is exact inside the platform range; operations that
   panic outside it are outside the theorems' hypotheses (C19's quantifier). *)
From Coq Require Export ZArith Bool List.
Export ListNotations.
Open Scope Z_scope.

Definition i64_min : Z := - 2 ^ 63.
Definition i64_max : Z := 2 ^ 63 - 1.
Definition in_i64 (z : Z) : bool := (i64_min <=? z) && (z <=? i64_max).
Definition u64_max : Z := 2 ^ 64 - 1.

(* time/complex.rs:806-818 checked_system_time_to_micros_from_epoch.
   Ok branch: as_micros() of the duration since the epoch, i64::try_from.
   Err branch: as_micros() of the (positive) distance, negated without
   leaving the i64 range (so exactly -2^63 is representable). *)
Definition to_micros (t : Z) : option Z :=
  if 0 <=? t then
    let m := t / 1000 in if m <=? i64_max then Some m else None
  else
    let m := (- t) / 1000 in if m <=? 2 ^ 63 then Some (- m) else None.

(* time/complex.rs:822-832 micros_from_epoch_to_system_time *)
Definition from_micros (m : Z) : Z :=
  if 0 <? m then m * 1000 else - ((- m) * 1000).

(* storage.rs:126-140 set_time / get_time through an i64 slot *)
Definition store_time (t : Z) : option Z := to_micros t.      (* None => key removed *)
Definition load_time (slot : option Z) : option Z :=
  match slot with Some m => Some (from_micros m) | None => None end.

(* time.rs:103-113 truncate_submicrosecond_walltime (wall component; mono untouched) *)
Definition truncate_wall (t : Z) : Z :=
  if 0 <=? t then t - t mod 1000 else t + (- t) mod 1000.

Record ctime := { wall : Z; mono : Z }.

Definition truncate (c : ctime) : ctime := {| wall := truncate_wall (wall c); mono := mono c |}.

Inductive pct := PWall (w : Z) | PMono (m : Z) | PComplex (c : ctime).

(* time.rs:206-213 *)
Definition destructure (p : pct) : option Z * option Z :=
  match p with
  | PWall w => (Some w, None)
  | PMono m => (None, Some m)
  | PComplex c => (Some (wall c), Some (mono c))
  end.

(* time.rs:196-203 *)
Definition complete_with (p : pct) (c : ctime) : ctime :=
  let '(s, i) := destructure p in
  {| wall := match s with Some w => w | None => wall c end;
     mono := match i with Some m => m | None => mono c end |}.

(* time.rs:126-132 *)
Definition after_or_eq_any (c : ctime) (p : pct) : bool :=
  match p with
  | PWall w => w <=? wall c
  | PMono m => m <=? mono c
  | PComplex o => (wall o <=? wall c) || (mono o <=? mono c)
  end.

(* time/complex.rs:39-75 *)
Definition ct_add (c : ctime) (d : Z) : ctime := {| wall := wall c + d; mono := mono c + d |}.
Definition ct_sub (c : ctime) (d : Z) : ctime := {| wall := wall c - d; mono := mono c - d |}.
(* time/complex.rs:369-412 *)
Definition pct_add (p : pct) (d : Z) : pct :=
  match p with PWall w => PWall (w + d) | PMono m => PMono (m + d) | PComplex c => PComplex (ct_add c d) end.
Definition pct_sub (p : pct) (d : Z) : pct :=
  match p with PWall w => PWall (w - d) | PMono m => PMono (m - d) | PComplex c => PComplex (ct_sub c d) end.

(* time.rs:172-193 *)
Definition pct_to_micros (p : pct) : option Z :=
  match fst (destructure p) with Some w => to_micros w | None => None end.
Definition pct_from_micros (m : Z) : pct := PWall (from_micros m).

(* chrono's representable range for DateTime<Utc>::from(SystemTime): years
   -262143 ..= 262142; outside it the conversion panics (time.rs:287-292 in
   the unrepaired tree).  Seconds bounds of chrono 0.4 NaiveDateTime::MIN/MAX. *)
Definition chrono_min_secs : Z := -8334601228800.
Definition chrono_max_secs : Z := 8210266876799.
Definition chrono_ok (t : Z) : bool :=
  (chrono_min_secs <=? t / 1000000000) && (t / 1000000000 <=? chrono_max_secs).
