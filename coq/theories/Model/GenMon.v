(* Model/GenMon.v — C13: decidable equality on observation lists and the
   executable monitor of order / exactly-once / back-pressure / no-lost-wake-up
   that is run on the implementation's observations.  Definitions only; the
   monitor is proved sound and complete for the model in Proofs/GenFacts.v. *)
Require Export Verif.Model.Gen.
Open Scope N_scope.

(* ---- equality ---- *)
Fixpoint nlist_eqb (a b : list N) : bool :=
  match a, b with
  | [], [] => true
  | x :: a', y :: b' => (x =? y) && nlist_eqb a' b'
  | _, _ => false
  end.

Definition on_eqb (a b : option N) : bool :=
  match a, b with Some x, Some y => x =? y | None, None => true | _, _ => false end.

Definition res_eqb (a b : poll_result) : bool :=
  match a, b with
  | RPendingP, RPendingP => true
  | RYielded x, RYielded y => x =? y
  | RComplete x, RComplete y => x =? y
  | RStreamEnd, RStreamEnd => true
  | _, _ => false
  end.

Definition obs_eqb (a b : observation) : bool :=
  Bool.eqb (o_wb a) (o_wb b) && res_eqb (o_res a) (o_res b) && Bool.eqb (o_wd a) (o_wd b) &&
  nlist_eqb (o_done a) (o_done b) && on_eqb (o_blocked a) (o_blocked b) && Bool.eqb (o_term a) (o_term b).

Fixpoint obs_list_eqb (a b : list observation) : bool :=
  match a, b with
  | [], [] => true
  | x :: a', y :: b' => obs_eqb x y && obs_list_eqb a' b'
  | _, _ => false
  end.

(* ---- monitor ---- *)
(* every emitted item with the index of the operation that emits it *)
Fixpoint owners_from (j : N) (ops : list op) : list (N * N) :=
  match ops with
  | [] => []
  | Yield x :: r => (x, j) :: owners_from (j + 1) r
  | YieldAll xs :: r => map (fun x => (x, j)) xs ++ owners_from (j + 1) r
  | DropHandle :: _ => []
  | _ :: r => owners_from (j + 1) r
  end.

Record mstate := mkMS {
  ms_rem : list (N * N);     (* emissions not yet delivered, with their operation index *)
  ms_c : N;                  (* number of operations finished so far *)
  ms_fin : bool              (* Complete has been delivered *)
}.

Definition mon_init (p : program) : mstate := mkMS (owners_from 0 (p_ops p)) 0 false.

(* the operations finish one by one, in program order *)
Fixpoint consecutive (c : N) (l : list N) : bool :=
  match l with
  | [] => true
  | x :: l' => (x =? c) && consecutive (c + 1) l'
  end.

Definition is_wait (o : option op) (k : N) : bool :=
  match o with Some (Wait j) => j =? k | _ => false end.

Definition mon_step (p : program) (ms : mstate) (o : observation) : option mstate :=
  if negb (consecutive (ms_c ms) (o_done o)) then None else
  let c := ms_c ms + N.of_nat (length (o_done o)) in
  if negb (c <=? N.of_nat (length (p_ops p))) then None else
  match o_res o with
  | RPendingP =>
      (* not after completion; and not a lost wake-up: woken in this poll, or parked on the Wait it is executing *)
      if ms_fin ms || o_term o then None
      else if o_wd o || is_wait (nth_error (p_ops p) (N.to_nat c)) (match o_blocked o with Some k => k | None => 0 end)
                        && (match o_blocked o with Some _ => true | None => false end)
      then Some (mkMS (ms_rem ms) c false) else None
  | RYielded x =>
      (* next emission, exactly once, in order; its operation has not finished (back-pressure); delivery wakes *)
      match ms_rem ms with
      | (y, j) :: rem' =>
          if negb (ms_fin ms) && negb (o_term o) && (x =? y) && (j =? c) && o_wd o
          then Some (mkMS rem' c false) else None
      | [] => None
      end
  | RComplete r =>
      match ms_rem ms with
      | [] => if negb (ms_fin ms) && o_term o && (r =? p_ret p) && (c =? N.of_nat (length (p_ops p)))
              then Some (mkMS [] c true) else None
      | _ :: _ => None
      end
  | RStreamEnd =>
      if ms_fin ms && o_term o then Some (mkMS (ms_rem ms) c true) else None
  end.

Fixpoint mon_run (p : program) (ms : mstate) (obs : list observation) : bool :=
  match obs with
  | [] => true
  | o :: obs' => match mon_step p ms o with Some ms' => mon_run p ms' obs' | None => false end
  end.

Definition c13_monitor (p : program) (obs : list observation) : bool := mon_run p (mon_init p) obs.
