(* Model/GenMon.v — C13: decidable equality on observation lists and the
   executable monitor of order / exactly-once / back-pressure / no-lost-wake-up
   that is run on the implementation's observations.  Definitions only; the
   monitor is proved sound and complete for the model in Proofs/GenFacts.v. *)
Require Export Verif.Model.Gen.
Open Scope N_scope.

(* ---- equality ---- *)
Fixpoint nlist_eqb (a b : list N) : bool :=
  match a, b with
  | [], [] => true
  | x :: a', y :: b' => (x =? y) && nlist_eqb a' b'
  | _, _ => false
  end.

Definition on_eqb (a b : option N) : bool :=
  match a, b with Some x, Some y => x =? y | None, None => true | _, _ => false end.

Definition res_eqb (a b : poll_result) : bool :=
  match a, b with
  | RPendingP, RPendingP => true
  | RYielded x, RYielded y => x =? y
  | RComplete x, RComplete y => x =? y
  | RStreamEnd, RStreamEnd => true
  | _, _ => false
  end.

Definition obs_eqb (a b : observation) : bool :=
  Bool.eqb (o_wb a) (o_wb b) && res_eqb (o_res a) (o_res b) && Bool.eqb (o_wd a) (o_wd b) &&
  nlist_eqb (o_done a) (o_done b) && on_eqb (o_blocked a) (o_blocked b) && Bool.eqb (o_term a) (o_term b).

Fixpoint obs_list_eqb (a b : list observation) : bool :=
  match a, b with
  | [], [] => true
  | x :: a', y :: b' => obs_eqb x y && obs_list_eqb a' b'
  | _, _ => false
  end.

(* ---- monitor ---- *)
(* every emitted item with the index of the operation that emits it *)
Fixpoint owners_from (j : N) (ops : list op) : list (N * N) :=
  match ops with
  | [] => []
  | Yield x :: r => (x, j) :: owners_from (j + 1) r
  | YieldAll xs :: r => map (fun x => (x, j)) xs ++ owners_from (j + 1) r
  | DropHandle :: _ => []
  | _ :: r => owners_from (j + 1) r
  end.

Record mstate := mkMS {
  ms_rem : list (N * N);     (* emissions not yet delivered, with their operation index *)
  ms_c : N;                  (* number of operations finished so far *)
  ms_fin : bool              (* Complete has been delivered *)
}.

Definition mon_init (p : program) : mstate := mkMS (owners_from 0 (p_ops p)) 0 false.

(* the operations finish one by one, in program order *)
Fixpoint consecutive (c : N) (l : list N) : bool :=
  match l with
  | [] => true
  | x :: l' => (x =? c) && consecutive (c + 1) l'
  end.

Definition is_wait (o : option op) (k : N) : bool :=
  match o with Some (Wait j) => j =? k | _ => false end.

Definition mon_step (p : program) (ms : mstate) (o : observation) : option mstate :=
  if negb (consecutive (ms_c ms) (o_done o)) then None else
  let c := ms_c ms + N.of_nat (length (o_done o)) in
  if negb (c <=? N.of_nat (length (p_ops p))) then None else
  match o_res o with
  | RPendingP =>
      (* not after completion; and not a lost wake-up: woken in this poll, or parked on the Wait it is executing *)
      if ms_fin ms || o_term o then None
      else if o_wd o || is_wait (nth_error (p_ops p) (N.to_nat c)) (match o_blocked o with Some k => k | None => 0 end)
                        && (match o_blocked o with Some _ => true | None => false end)
      then Some (mkMS (ms_rem ms) c false) else None
  | RYielded x =>
      (* next emission, exactly once, in order; its operation has not finished (back-pressure); delivery wakes *)
      match ms_rem ms with
      | (y, j) :: rem' =>
          if negb (ms_fin ms) && negb (o_term o) && (x =? y) && (j =? c) && o_wd o
          then Some (mkMS rem' c false) else None
      | [] => None
      end
  | RComplete r =>
      match ms_rem ms with
      | [] => if negb (ms_fin ms) && o_term o && (r =? p_ret p) && (c =? N.of_nat (length (p_ops p)))
              then Some (mkMS [] c true) else None
      | _ :: _ => None
      end
  | RStreamEnd =>
      if ms_fin ms && o_term o then Some (mkMS (ms_rem ms) c true) else None
  end.

Fixpoint mon_run (p : program) (ms : mstate) (obs : list observation) : bool :=
  match obs with
  | [] => true
  | o :: obs' => match mon_step p ms o with Some ms' => mon_run p ms' obs' | None => false end
  end.

Definition c13_monitor (p : program) (obs : list observation) : bool := mon_run p (mon_init p) obs.

(* ---- vocabulary of the C13 statements (Props/C13.v) ---- *)
Definition results (obs : list observation) : list poll_result := map o_res obs.

Definition yvals (rs : list poll_result) : list N :=
  flat_map (fun r => match r with RYielded x => [x] | _ => [] end) rs.

Definition running_result (r : poll_result) : Prop :=
  match r with RPendingP | RYielded _ => True | _ => False end.

(* the operations finished during each poll are exactly the ones the program
   counter moved past: pc_before, ..., pc_after - 1 *)
Fixpoint logs_ok (pc : nat) (l : list (observation * gstate)) : Prop :=
  match l with
  | [] => True
  | (o, st) :: l' =>
      (pc <= t_pc (g_task st))%nat /\
      o_done o = map N.of_nat (seq pc (t_pc (g_task st) - pc)) /\
      logs_ok (t_pc (g_task st)) l'
  end.

(* A consumer in the style of every executor: it polls again after Ready(Some _),
   and after Pending / None only once the root waker has been woken (during that
   poll, or later by a completed external event).  `may` = the previous poll
   entitles it to poll again (true before the first poll). *)
Definition warrants_next (o : observation) : bool :=
  o_wd o || match o_res o with RYielded _ | RComplete _ => true | _ => false end.

Fixpoint disciplined (may : bool) (obs : list observation) : bool :=
  match obs with
  | [] => true
  | o :: obs' => (may || o_wb o) && disciplined (warrants_next o) obs'
  end.

(* at the end of the schedule the consumer has nothing left to react to:
   the last poll does not entitle it to another one and no wake-up is outstanding *)
Fixpoint idle_end (st : gstate) (may : bool) (s : schedule) : Prop :=
  match s with
  | [] => may = false /\ m_woken (g_m st) = false
  | Complete k :: s' => idle_end (with_m (complete_m k) st) may s'
  | Poll :: s' =>
      let '(st1, r) := poll_next (with_m (fun m => set_log [] (set_woken false m)) st) in
      idle_end (with_m (set_woken false) st1) (warrants_next (observe (m_woken (g_m st)) r st1)) s'
  end.

(* the wake-ups a program can cause: one per item, per SelfWake, per Wait, one for closing the channel *)
Fixpoint wake_sources (ops : list op) : nat :=
  match ops with
  | [] => 0
  | Yield _ :: r => 1 + wake_sources r
  | YieldAll xs :: r => length xs + wake_sources r
  | SelfWake :: r => 1 + wake_sources r
  | Wait _ :: r => 1 + wake_sources r
  | DropHandle :: r => wake_sources r
  end.

Definition wake_budget (p : program) : nat := wake_sources (p_ops p) + 1.

Fixpoint item_count (ops : list op) : nat :=
  match ops with
  | [] => 0
  | Yield _ :: r => 1 + item_count r
  | YieldAll xs :: r => length xs + item_count r
  | _ :: r => item_count r
  end.

(* The shape of every result sequence: while running, only Pending and Yielded,
   the yielded values being a prefix of `pend` in order; if the run gets further,
   all of `pend` has been yielded, then exactly one Complete ret, then only None. *)
Definition stream_shape (pend : list N) (ret : N) (rs : list poll_result) : Prop :=
  exists pre post, rs = pre ++ post /\ Forall running_result pre /\
    ((post = [] /\ exists later, pend = yvals pre ++ later) \/
     (exists n, post = RComplete ret :: repeat RStreamEnd n /\ yvals pre = pend)).
