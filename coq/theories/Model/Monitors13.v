(* Model/Monitors13.v — the state-machine clauses of C13, on traces of the state machine:
   (a) every progress value the installer reports is delivered, in order, before anything else happens (so before the
       install's outcome is announced);
   (b) the producer never runs ahead of its consumer: a request goes out only after the check has announced itself (or,
       for a ping, the wait for the reboot has), the installer is started only after InstallingUpdate has been taken,
       the reboot is performed only after WaitingForReboot has been taken.
   An event appears in a trace when the consumer takes it; a call of the installer / HTTP client when it is made. *)
Require Import Verif.Model.Time Verif.Base.Bytes Verif.Model.Version Verif.Model.Json Verif.Model.Proto
               Verif.Model.Request Verif.Model.Env Verif.Model.SM.
Open Scope N_scope.

Record q13 := { prog13 : list N;    (* progress values reported by the installer and not yet delivered *)
                chk13 : bool;       (* a check has announced itself and its result has not been delivered yet *)
                inst13 : bool;      (* InstallingUpdate has been taken in this check *)
                wfr13 : bool }.     (* WaitingForReboot has been taken and Idle has not *)
Definition set13 (q : q13) (p : list N) (c i w : bool) : q13 := {| prog13 := p; chk13 := c; inst13 := i; wfr13 := w |}.

Definition step13 (q : q13) (a : action) : option q13 :=
  match a with
  | ARequest _ _ | AReply _ _ => Some q
  | AEvent (EvProgress bits) =>
      match prog13 q with
      | b :: r => if b =? bits then Some (set13 q r (chk13 q) (inst13 q) (wfr13 q)) else None
      | [] => None
      end
  | _ =>
      match prog13 q with
      | _ :: _ => None
      | [] =>
          match a with
          | AEvent (EvState (CheckingForUpdates _)) => Some (set13 q [] true false (wfr13 q))
          | AEvent (EvResult _) => Some (set13 q [] false false (wfr13 q))
          | AEvent (EvState InstallingUpdate) => Some (set13 q [] (chk13 q) true (wfr13 q))
          | AEvent (EvState WaitingForReboot) => Some (set13 q [] (chk13 q) (inst13 q) true)
          | AEvent (EvState Idle) => Some (set13 q [] (chk13 q) (inst13 q) false)
          | AHttp _ _ => if chk13 q || wfr13 q then Some q else None
          | AInstaller (ICreatePlan _ _ _ _) _ => if chk13 q then Some q else None
          | AInstaller (IPerform _) (IPerformed pa) => if inst13 q then Some (set13 q (pa_progress pa) (chk13 q) (inst13 q) (wfr13 q)) else None
          | AInstaller (IPerform _) _ => None
          | AInstaller IReboot _ => if wfr13 q then Some q else None
          | _ => Some q
          end
      end
  end.
Definition init13 : q13 := {| prog13 := []; chk13 := false; inst13 := false; wfr13 := false |}.
