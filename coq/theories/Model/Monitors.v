(* Model/Monitors.v — executable monitors over traces (definitions only).
   Each is a partial step function; `None` = the property is violated at that action. *)
Require Import Verif.Model.Time Verif.Base.Bytes Verif.Model.Version Verif.Model.Json Verif.Model.Proto
               Verif.Model.Request Verif.Model.Env Verif.Model.SM.
Open Scope Z_scope.

Definition params_eqb (a b : params) : bool :=
  isource_eqb (p_source a) (p_source b) && Bool.eqb (p_proxies a) (p_proxies b)
  && Bool.eqb (p_disable a) (p_disable b) && Bool.eqb (p_samever a) (p_samever b).

Definition obool_pair_ok (p : params) (u : option (bool * bool)) : bool :=
  match u with
  | None => true
  | Some (d, s) => Bool.eqb d (p_disable p) && Bool.eqb s (p_samever p)
  end.

Definition interactivity_ok (src : isource) (hs : list (bytes * bytes)) : bool :=
  existsb (fun kv => bytes_eqb (fst kv) (s2b "x-goog-update-interactivity")
                     && bytes_eqb (snd kv) (match src with OnDemand => s2b "fg" | ScheduledTask => s2b "bg" end)) hs.

(* a request made inside a check allowed with parameters p carries exactly p *)
Definition http_ok (p : params) (w : wire) : bool :=
  isource_eqb (ws_source (w_sum w)) (p_source p)
  && interactivity_ok (p_source p) (w_headers w)
  && forallb (fun a => obool_pair_ok p (wa_uc a)) (ws_apps (w_sum w)).

(* a ping sent while waiting to reboot: scheduled-task parameters, no update check, no events *)
Definition ping_ok (w : wire) : bool :=
  isource_eqb (ws_source (w_sum w)) ScheduledTask
  && interactivity_ok ScheduledTask (w_headers w)
  && forallb (fun a => match wa_uc a, wa_events a with None, [] => true | _, _ => false end) (ws_apps (w_sum w)).

(* ------------------------------------------------------------------ C05 *)
Inductive planst :=
| NoPlan
| Approved (plan : bytes)
| Installed (plan : bytes) (clean : bool) (reboot_needed : option bool).

Inductive ph5 :=
| P5Idle
| P5Check (p : params) (ps : planst)
| P5After (ps : planst)
| P5Reboot (last : option bool).

Definition step5 (q : ph5) (a : action) : option ph5 :=
  match a with
  | AClock _ | ATimer _ | AStore _ _ | AMetric _ | AReply _ _ | ARequest _ _ => Some q
  | AEvent ev =>
      match ev with
      | EvState (CheckingForUpdates s) =>
          match q with
          | P5Check p NoPlan => if isource_eqb s (p_source p) then Some q else None
          | _ => None
          end
      | EvResult _ => match q with P5Check _ ps => Some (P5After ps) | _ => None end
      | EvState WaitingForReboot =>
          match q with P5After (Installed _ true (Some true)) => Some (P5Reboot None) | _ => None end
      | EvState Idle => match q with P5After _ => Some P5Idle | _ => None end
      | EvInstallerError =>
          match q with
          | P5Check p (Installed plan _ rn) => Some (P5Check p (Installed plan false rn))
          | _ => None
          end
      | _ => Some q
      end
  | APolicy pq ans =>
      match pq, ans with
      | QNextTime _ _ _, PTiming _ => match q with P5Check _ _ => None | _ => Some q end
      | QCheckAllowed _ _ _ _, PDecision d =>
          match q with
          | P5Idle => match d with
                      | DOk p | DOkDeferred p => Some (P5Check p NoPlan)
                      | _ => Some P5Idle
                      end
          | _ => None
          end
      | QCanStart plan, PUDecision d =>
          match q with
          | P5Check p _ => Some (P5Check p (match d with UOk => Approved plan | _ => NoPlan end))
          | _ => None
          end
      | QRebootNeeded plan, PBool b =>
          match q with
          | P5Check p (Installed plan' c None) => if bytes_eqb plan plan' then Some (P5Check p (Installed plan' c (Some b))) else None
          | _ => None
          end
      | QRebootAllowed _, PBool b => match q with P5Reboot _ => Some (P5Reboot (Some b)) | _ => None end
      | _, _ => None
      end
  | AHttp w _ =>
      match q with
      | P5Check p _ => if http_ok p w then Some q else None
      | P5Reboot _ => if ping_ok w then Some q else None
      | _ => None
      end
  | AInstaller c _ =>
      match c with
      | ICreatePlan _ _ _ _ => match q with P5Check _ _ => Some q | _ => None end
      | IPerform plan =>
          match q with
          | P5Check p (Approved plan') => if bytes_eqb plan plan' then Some (P5Check p (Installed plan true None)) else None
          | _ => None
          end
      | IReboot => match q with P5Reboot (Some true) => Some (P5After NoPlan) | _ => None end
      end
  end.

Definition init5 (ep : entry_point) : ph5 :=
  match ep with EStart => P5Idle | EOneshot => P5Check params_default NoPlan end.

(* ------------------------------------------------------------------ C07 *)
(* The poll interval in force after every authenticated response equals the (first) X-Retry-After value,
   capped; every change is announced and then written and committed before anything else happens; what the
   policy and the observers are shown is always the interval in force. *)
Inductive ob7 := ObProto (p : option Z) | ObStore | ObPollStore (p : option Z) | ObCommit.
Record q7 := { cup7 : bool; p7 : option Z; todo7 : list ob7 }.

Definition poll_store_op (p : option Z) : store_op :=
  match (match p with Some ns => let us := ns / 1000 in if us <=? i64_max then Some us else None | None => None end) with
  | Some us => SSetInt K_POLL_INTERVAL us
  | None => SRemove K_POLL_INTERVAL
  end.
Definition store_op_eqb (a b : store_op) : bool :=
  match a, b with
  | SSetInt k v, SSetInt k' v' => bytes_eqb k k' && (v =? v')
  | SSetStr k v, SSetStr k' v' => bytes_eqb k k' && bytes_eqb v v'
  | SRemove k, SRemove k' => bytes_eqb k k'
  | SCommit, SCommit => true
  | _, _ => false
  end.

Definition step7 (q : q7) (a : action) : option q7 :=
  match a with ARequest _ _ | AReply _ _ => Some q | _ =>
  match todo7 q with
  | o :: rest =>
      let q' := {| cup7 := cup7 q; p7 := p7 q; todo7 := rest |} in
      match o, a with
      | ObProto p, AEvent (EvProtocol ps) => if oZ_eqb (ps_poll ps) p then Some q' else None
      | ObStore, AStore (SSetInt _ _) _ | ObStore, AStore (SRemove _) _ => Some q'
      | ObPollStore p, AStore op _ => if store_op_eqb op (poll_store_op p) then Some q' else None
      | ObCommit, AStore SCommit _ => Some q'
      | _, _ => None
      end
  | [] =>
      match a with
      | AHttp _ (HResp _ ra authentic _) =>
          if negb (cup7 q) || authentic then
            let p' := parse_retry_after ra in
            if oZ_eqb (p7 q) p' then Some q
            else Some {| cup7 := cup7 q; p7 := p'; todo7 := [ObProto p'; ObStore; ObPollStore p'; ObStore; ObCommit] |}
          else Some q
      | APolicy (QNextTime _ _ ps) _ | APolicy (QCheckAllowed _ _ ps _) _ | AEvent (EvProtocol ps) =>
          if oZ_eqb (ps_poll ps) (p7 q) then Some q else None
      | _ => Some q
      end
  end end.

Definition init7 (cup : option N) (st : storage) : q7 :=
  {| cup7 := match cup with Some _ => true | None => false end;
     p7 := ps_poll (snd (ctx_load (pend st))); todo7 := [] |}.

(* ------------------------------------------------------------------ C06 *)
(* At most three update-check requests per check; a further attempt only after a retryable outcome (transport error
   that is not a caller error, or a non-2xx status of an authenticated response), only while no poll interval is in
   force, only after exactly one wait inside the k-th back-off window; all attempts in one session with pairwise
   distinct request ids; the loop stops exactly when it must; RequestsPerCheck reports the attempts made. *)
Definition is_2xx (st : N) : bool := ((200 <=? st) && (st <? 300))%N.
Definition authenticated (cup : bool) (o : http_outcome) : bool :=
  match o with HResp _ _ au _ => negb cup || au | HErr _ => false end.
Definition retryable (cup : bool) (o : http_outcome) : bool :=
  match o with
  | HErr TUser => false
  | HErr _ => true
  | HResp st _ au _ => if cup && negb au then false else negb (is_2xx st)
  end.
Definition poll_after (cup : bool) (poll : option Z) (o : http_outcome) : option Z :=
  match o with
  | HResp _ ra au _ => if negb cup || au then parse_retry_after ra else poll
  | HErr _ => poll
  end.
Definition in_window (k d : Z) : bool :=
  let n := Z.shiftl 1 (k - 1) * 1000 in ((n - 500) * 1000000 <=? d) && (d <? (n + 500) * 1000000).

Inductive ph6 :=
| Q6Out
| Q6Att (k : Z) (last : option http_outcome) (ready : bool)
| Q6Rep.
Record q6 := { cup6 : bool; poll6 : option Z; ph6_ : ph6 }.
Definition q6_with (q : q6) (poll : option Z) (p : ph6) : q6 := {| cup6 := cup6 q; poll6 := poll; ph6_ := p |}.
Definition poll_none (p : option Z) : bool := match p with None => true | Some _ => false end.

Definition rpc_ok (cup : bool) (poll : option Z) (k : Z) (last : option http_outcome) (ready : bool) (n : Z) (ok : bool) : bool :=
  (match last with
   | Some o => negb ready && negb (retryable cup o && (k <? 3) && poll_none poll)
               && Bool.eqb ok (authenticated cup o && match o with HResp st _ _ _ => is_2xx st | _ => false end)
   | None => (k =? 0) && negb ok
   end) && (n =? Z.max k 1).

Definition step6 (q : q6) (a : action) : option q6 :=
  match a with
  | AEvent (EvState (CheckingForUpdates _)) =>
      match ph6_ q with Q6Out => Some (q6_with q (poll6 q) (Q6Att 0 None true)) | _ => None end
  | AEvent (EvResult _) =>
      match ph6_ q with Q6Rep => Some (q6_with q (poll6 q) Q6Out) | _ => None end
  | AHttp w o =>
      let poll' := poll_after (cup6 q) (poll6 q) o in
      match ph6_ q with
      | Q6Att k last ready =>
          if ready && (k <? 3) then Some (q6_with q poll' (Q6Att (k + 1) (Some o) false)) else None
      | p => Some (q6_with q poll' p)
      end
  | ATimer (WFor d) =>
      match ph6_ q with
      | Q6Att k (Some o) false =>
          if retryable (cup6 q) o && (k <? 3) && poll_none (poll6 q) && in_window k d
          then Some (q6_with q (poll6 q) (Q6Att k (Some o) true)) else None
      | Q6Att _ _ _ | Q6Rep => None
      | Q6Out => Some q
      end
  | ATimer (WUntil _) => match ph6_ q with Q6Out => Some q | _ => None end
  | AMetric (MRequestsPerCheck n ok) =>
      match ph6_ q with
      | Q6Att k last ready =>
          if rpc_ok (cup6 q) (poll6 q) k last ready n ok then Some (q6_with q (poll6 q) Q6Rep) else None
      | _ => None
      end
  | _ => Some q
  end.

(* run-time only (not part of the proved monitor): one session per check, pairwise distinct request ids *)
Record q6i := { i_in : bool; i_sess : option (option bytes); i_reqs : list (option bytes) }.
Definition step6ids (q : q6i) (a : action) : option q6i :=
  match a with
  | AEvent (EvState (CheckingForUpdates _)) => Some {| i_in := true; i_sess := None; i_reqs := i_reqs q |}
  | AEvent (EvResult _) => Some {| i_in := false; i_sess := None; i_reqs := i_reqs q |}
  | AHttp w _ =>
      let s := ws_session (w_sum w) in let r := ws_request (w_sum w) in
      if existsb (obytes_eqb r) (i_reqs q) then None
      else if i_in q then
             match i_sess q with
             | Some s0 => if obytes_eqb s s0 then Some {| i_in := true; i_sess := Some s0; i_reqs := r :: i_reqs q |} else None
             | None => Some {| i_in := true; i_sess := Some s; i_reqs := r :: i_reqs q |}
             end
           else Some {| i_in := false; i_sess := None; i_reqs := r :: i_reqs q |}
  | _ => Some q
  end.

Definition init6 (ep : entry_point) (cup : option N) (st : storage) : q6 :=
  {| cup6 := match cup with Some _ => true | None => false end;
     poll6 := ps_poll (snd (ctx_load (pend st))); ph6_ := Q6Out |}.

(* ------------------------------------------------------------------ C02 *)
(* A response that fails authentication is a failed exchange and nothing in it is acted upon. *)
Definition apps_eq_dec : forall a b : list app, {a = b} + {a <> b}.
Proof. repeat decide equality. Defined.
Definition opct_eq_dec : forall a b : option pct, {a = b} + {a <> b}.
Proof. repeat decide equality. Defined.

Inductive f2 := F2None | F2Att | F2Rep | F2Ping.
Inductive in2 := I2Out | I2Att | I2Rep.
Record q2 := {
  cup2 : bool; in2_ : in2; f2_ : f2;
  lu2 : option (option pct);        (* last-contact time shown to the policy when this check was allowed *)
  apps2 : option (list app);        (* apps shown to the policy when this check was allowed *)
  same2 : bool;                     (* the next next-time question must show exactly apps2 *)
  reason2 : bool                    (* failure reason Internal has been reported *) }.
Definition q2_set (q : q2) (i : in2) (f : f2) (same : bool) (reason : bool) : q2 :=
  {| cup2 := cup2 q; in2_ := i; f2_ := f; lu2 := lu2 q; apps2 := apps2 q; same2 := same; reason2 := reason |}.
Definition forged (cup : bool) (o : http_outcome) : bool :=
  match o with HResp _ _ au _ => cup && negb au | HErr _ => false end.
Definition total_events (w : wire) : nat := length (flat_map wa_events (ws_apps (w_sum w))).

Definition step2 (q : q2) (a : action) : option q2 :=
  match a with
  | AEvent (EvState (CheckingForUpdates _)) => Some (q2_set q I2Att F2None (same2 q) false)
  | AMetric (MRequestsPerCheck _ _) => Some (q2_set q I2Rep (f2_ q) (same2 q) (reason2 q))
  | AHttp w o =>
      match f2_ q with
      | F2Att => None                                     (* no retry, no report after a forged update-check response *)
      | _ =>
          if forged (cup2 q) o then
            match in2_ q with
            | I2Att => Some (q2_set q I2Att F2Att (same2 q) false)
            | I2Rep => Some (q2_set q I2Rep (match total_events w with O => F2None | S _ => F2Rep end) (same2 q) (reason2 q))
            | I2Out => Some (q2_set q I2Out F2Ping (same2 q) (reason2 q))
            end
          else match f2_ q with
               | F2Rep => None                            (* the lost event must be recorded before anything else is sent *)
               | _ => Some (q2_set q (in2_ q) F2None (same2 q) (reason2 q))
               end
      end
  | AInstaller _ _ => match f2_ q with F2Att => None | _ => Some q end
  | AEvent (EvServerResponse _) => match f2_ q with F2None => Some q | _ => None end
  | ATimer (WFor _) => match f2_ q with F2Att => None | _ => Some q end
  | AMetric (MOmahaEventLost _) =>
      match f2_ q with F2Rep => Some (q2_set q (in2_ q) F2None (same2 q) (reason2 q)) | _ => Some q end
  | AMetric (MFailureReason r) =>
      match f2_ q with F2Att => if (r =? 4)%N then Some (q2_set q (in2_ q) F2Att (same2 q) true) else None | _ => Some q end
  | AMetric _ => match f2_ q with F2Rep => None | _ => Some q end
  | AEvent (EvSchedule s) =>
      match f2_ q with
      | F2Att => match lu2 q with
                 | Some lu => if opct_eq_dec (s_last_update s) lu then Some q else None
                 | None => Some q
                 end
      | F2Ping => None                                    (* no last-contact change after a forged ping *)
      | _ => Some q
      end
  | AEvent (EvResult r) =>
      match f2_ q with
      | F2Att =>
          match r with
          | inl (CEOmahaRequest RECupValidation) =>
              if reason2 q then Some (q2_set q I2Out F2None true false) else None
          | _ => None
          end
      | F2Rep => None
      | _ => Some (q2_set q I2Out F2None false false)
      end
  | APolicy (QCheckAllowed apps s _ _) _ =>
      Some {| cup2 := cup2 q; in2_ := I2Out; f2_ := F2None; lu2 := Some (s_last_update s); apps2 := Some apps;
              same2 := false; reason2 := false |}
  | APolicy (QNextTime apps _ _) _ =>
      if same2 q then
        match apps2 q with
        | Some a0 => if apps_eq_dec apps a0 then Some (q2_set q I2Out F2None false false) else None
        | None => Some (q2_set q I2Out F2None false false)
        end
      else Some (q2_set q I2Out F2None false false)
  | _ => Some q
  end.

Definition init2 (cup : option N) : q2 :=
  {| cup2 := match cup with Some _ => true | None => false end; in2_ := I2Out; f2_ := F2None;
     lu2 := None; apps2 := None; same2 := false; reason2 := false |}.

(* ------------------------------------------------------------------ C03 (run-time monitor) *)
(* With a CUP handler configured every request targets the configured URL with exactly the added
   cup2key=<latest id>:<64 hex> parameter, and no nonce is used twice in the whole history. *)
Definition lastn {A} (n : nat) (l : list A) : list A := rev (firstn n (rev l)).
Record q3 := { url3 : urlparts; kid3 : option N; seen3 : list bytes }.
Definition step3 (q : q3) (a : action) : option q3 :=
  match a with
  | AHttp w _ =>
      match kid3 q with
      | Some kid =>
          let nonce := lastn 64 (w_uri w) in
          if bytes_eqb (w_uri w) (u_prefix (url3 q) ++ append_query (u_path (url3 q)) (u_query (url3 q)) (s2b "cup2key") (print_dec kid ++ 58%N :: nonce))
             && Nat.eqb (length nonce) 64 && negb (existsb (bytes_eqb nonce) (seen3 q))
          then Some {| url3 := url3 q; kid3 := kid3 q; seen3 := nonce :: seen3 q |} else None
      | None => if bytes_eqb (w_uri w) (plain_uri (url3 q)) then Some q else None
      end
  | AInstaller (ICreatePlan _ meta _ has_sig) _ =>
      match kid3 q, meta with
      | Some _, Some true => if has_sig then Some q else None
      | None, None => if has_sig then None else Some q
      | _, _ => None
      end
  | _ => Some q
  end.

(* ------------------------------------------------------------------ C11 *)
(* Every start-update-check request gets exactly one reply, and the reply is truthful. *)
Inductive ph11 := P11Wait | P11Check | P11Reboot.
Record q11 := {
  out11 : list (N * isource);          (* sent, not yet answered; oldest first *)
  done11 : list N;                     (* answered *)
  ph11_ : ph11;
  starter11 : option (isource * bool); (* the latest check-allowed question: (source asked with, positive?) if not yet consumed by a reply *)
  src11 : isource;                     (* source of the current check's options *)
  upg11 : bool;                        (* an on-demand request was answered AlreadyRunning during this check / reboot wait *)
  must_reboot11 : bool                 (* the policy has just allowed the reboot: the next installer action is the reboot *) }.
Definition q11_upd (q : q11) out dn ph st src upg mr : q11 :=
  {| out11 := out; done11 := dn; ph11_ := ph; starter11 := st; src11 := src; upg11 := upg; must_reboot11 := mr |}.
Definition positive (d : decision) : bool := match d with DOk _ | DOkDeferred _ => true | _ => false end.

Definition step11 (q : q11) (a : action) : option q11 :=
  match a with
  | ARequest id src =>
      if existsb (fun x => N.eqb (fst x) id) (out11 q) || existsb (N.eqb id) (done11 q) then None
      else Some (q11_upd q (out11 q ++ [(id, src)]) (done11 q) (ph11_ q) (starter11 q) (src11 q) (upg11 q) (must_reboot11 q))
  | AReply id r =>
      match find (fun x => N.eqb (fst x) id) (out11 q) with
      | None => None                                               (* a reply nobody asked for, or a second reply *)
      | Some (_, src) =>
          let out' := filter (fun x => negb (N.eqb (fst x) id)) (out11 q) in
          let dn' := id :: done11 q in
          match r with
          | Started =>
              match starter11 q, out11 q with
              | Some (s, true), (id0, _) :: _ =>
                  if N.eqb id0 id && isource_eqb s src then Some (q11_upd q out' dn' (ph11_ q) None (src11 q) (upg11 q) (must_reboot11 q)) else None
              | _, _ => None
              end
          | Throttled =>
              match starter11 q, out11 q with
              | Some (s, false), (id0, _) :: _ =>
                  if N.eqb id0 id && isource_eqb s src then Some (q11_upd q out' dn' (ph11_ q) None (src11 q) (upg11 q) (must_reboot11 q)) else None
              | _, _ => None
              end
          | AlreadyRunning =>
              match ph11_ q with
              | P11Wait => None
              | _ => Some (q11_upd q out' dn' (ph11_ q) (starter11 q) (src11 q) (upg11 q || is_ondemand src) (must_reboot11 q))
              end
          end
      end
  | APolicy (QCheckAllowed _ _ _ src) (PDecision d) =>
      match ph11_ q with
      | P11Wait => Some (q11_upd q (out11 q) (done11 q) (if positive d then P11Check else P11Wait) (Some (src, positive d)) src false false)
      | _ => None
      end
  | APolicy (QRebootAllowed src) (PBool b) =>
      (* replies are observed at the end of a poll, so an on-demand request that has been sent but whose
         AlreadyRunning reply is not yet visible may already have upgraded the question *)
      let pending_od := existsb (fun x => is_ondemand (snd x)) (out11 q) in
      if isource_eqb src (if upg11 q then OnDemand else src11 q) || (is_ondemand src && pending_od)
      then Some (q11_upd q (out11 q) (done11 q) (ph11_ q) (starter11 q) (src11 q) (upg11 q || (is_ondemand src && pending_od)) b) else None
  | AInstaller IReboot _ => if must_reboot11 q then Some (q11_upd q (out11 q) (done11 q) (ph11_ q) (starter11 q) (src11 q) (upg11 q) false) else None
  | AEvent (EvState WaitingForReboot) => Some (q11_upd q (out11 q) (done11 q) P11Reboot None (src11 q) (upg11 q) false)
  | AEvent (EvState Idle) => Some (q11_upd q (out11 q) (done11 q) P11Wait None (src11 q) false false)
  | AEvent (EvState (CheckingForUpdates _)) =>
      (* a request that started this check must have been told so before the check announces itself *)
      match starter11 q with
      | Some (_, true) => match out11 q with [] => Some (q11_upd q (out11 q) (done11 q) P11Check None (src11 q) (upg11 q) false) | _ => Some q end
      | _ => Some q
      end
  | AHttp _ _ | ATimer _ | APolicy (QNextTime _ _ _) _ => if must_reboot11 q then None else Some q
  | _ => Some q
  end.
Definition init11 : q11 :=
  {| out11 := []; done11 := []; ph11_ := P11Wait; starter11 := None; src11 := ScheduledTask; upg11 := false; must_reboot11 := false |}.

(* addition to step11: an on-demand request sent while the machine waits for the reboot must lead to the
   reboot question being asked again (as on-demand) before the next ping goes out *)
Record q11x := { base11 : q11; askdue11 : bool }.
Definition step11x (q : q11x) (a : action) : option q11x :=
  match step11 (base11 q) a with
  | None => None
  | Some b =>
      let keep := Some {| base11 := b; askdue11 := askdue11 q |} in
      match a with
      | ARequest _ OnDemand => match ph11_ (base11 q) with P11Reboot => Some {| base11 := b; askdue11 := true |} | _ => keep end
      | APolicy (QRebootAllowed OnDemand) _ | AEvent (EvState Idle) => Some {| base11 := b; askdue11 := false |}
      | AHttp _ _ => if askdue11 q then None else keep
      | _ => keep
      end
  end.

(* ------------------------------------------------------------------ C10 *)
(* Every update outcome is reported exactly once: after the attempts of a check succeed, the path taken
   (unparseable body / plan refused / policy deferred or denied / install attempted with per-app results)
   determines a list of report obligations; each obligation is discharged by exactly one request carrying
   exactly the expected events for exactly the expected apps, or, when the request cannot be delivered, by
   one lost-event metric per event; no other request carries events, nothing is retried, and the check's
   result is announced only when nothing is owed.  (Session / request ids: step6ids, run-time.) *)
Definition code3 := (N * N * option N)%type.
Definition ev_code (e : event) : code3 :=
  (etype_code (ev_type e), eresult_code (ev_result e), match ev_err e with Some x => Some (eerr_code x) | None => None end).
Definition code3_eqb (a b : code3) : bool :=
  match a, b with (t, r, e), (t', r', e') =>
    (t =? t')%N && (r =? r')%N && match e, e' with Some x, Some y => (x =? y)%N | None, None => true | _, _ => false end end.

Record xev := { x_id : bytes; x_code : code3; x_prev : option bytes; x_next : list (option bytes) }.
Inductive ob10 := OReport (exp : list xev) (lost : list code3) | OLost (lost : list code3).

Definition wev := (N * N * option N * option bytes * option bytes)%type.
Definition wev_ok (x : xev) (w : wev) : bool :=
  match w with (t, r, e, prev, next) =>
    code3_eqb (t, r, e) (x_code x) && obytes_eqb prev (x_prev x) && existsb (obytes_eqb next) (x_next x) end.
Fixpoint evs_match (xs : list xev) (ws : list wev) : bool :=
  match xs, ws with
  | [], [] => true
  | x :: xs', w :: ws' => wev_ok x w && evs_match xs' ws'
  | _, _ => false
  end.
Fixpoint nodupb (l : list bytes) : bool :=
  match l with [] => true | x :: r => negb (existsb (bytes_eqb x) r) && nodupb r end.

(* the request carries, app by app, exactly the expected events and nothing else *)
Definition report_ok (exp : list xev) (w : wire) : bool :=
  let apps := ws_apps (w_sum w) in
  nodupb (map wa_id apps)
  && forallb (fun a => match wa_uc a, wa_ping a with None, None => true | _, _ => false end
                       && evs_match (filter (fun x => bytes_eqb (x_id x) (wa_id a)) exp) (wa_events a)) apps
  && forallb (fun x => existsb (fun a => bytes_eqb (x_id x) (wa_id a)) apps) exp.

Definition c_parse_error : code3 := ev_code (event_error EEParseResponse).
Definition c_plan_error : code3 := ev_code (event_error EEConstructInstallPlan).
Definition c_denied : code3 := ev_code (event_error EEDeniedByPolicy).
Definition c_deferred : code3 := (3%N, 9%N, None).
Definition c_started : code3 := ev_code (event_success ETUpdateDownloadStarted).
Definition c_complete : code3 := ev_code (event_success ETUpdateComplete).
Definition c_result (r : ares) : code3 :=
  match r with
  | RInstalled => ev_code (event_success ETUpdateDownloadFinished)
  | RDeferred => c_deferred
  | RFailed => ev_code (event_error EEInstallation)
  end.

Definition idvers := list (bytes * bytes).
Definition ver_of (apps : idvers) (id : bytes) : option bytes :=
  match find (fun x => bytes_eqb (fst x) id) apps with Some (_, v) => Some v | None => None end.
(* the manifest versions the response offers for this app id *)
Definition offers (d : doc) (id : bytes) : list (option bytes) :=
  map manifest_version (filter (fun r => uc_ok r && bytes_eqb (r_id r) id) (d_apps d)).

Definition exp_all (c : code3) (apps : idvers) : list xev :=
  map (fun x => {| x_id := fst x; x_code := c; x_prev := Some (snd x); x_next := [None] |}) apps.
Definition exp_offered (c : code3) (d : doc) (apps : idvers) : list xev :=
  flat_map (fun x => match offers d (fst x) with
                     | [] => []
                     | l => [{| x_id := fst x; x_code := c; x_prev := Some (snd x); x_next := l |}] end) apps.
Definition exp_results (d : doc) (rs : list ares) (apps : idvers) : list xev :=
  flat_map (fun pr => match ver_of apps (r_id (fst pr)) with
                      | Some v => [{| x_id := r_id (fst pr); x_code := c_result (snd pr); x_prev := Some v;
                                      x_next := [manifest_version (fst pr)] |}]
                      | None => [] end) (combine (filter uc_ok (d_apps d)) rs).
Definition exp_complete (d : doc) (rs : list ares) (apps : idvers) : list xev :=
  flat_map (fun pr => match snd pr, ver_of apps (r_id (fst pr)) with
                      | RInstalled, Some v => [{| x_id := r_id (fst pr); x_code := c_complete; x_prev := Some v;
                                                  x_next := offers d (r_id (fst pr)) |}]
                      | _, _ => [] end) (combine (filter uc_ok (d_apps d)) rs).

Inductive ph10 := X0 | XAtt | XBody | XOffer (d : doc) | XPlan (d : doc) | XInstall (d : doc) | XDone.
Record q10 := { apps10 : idvers; cup10 : bool; ph10_ : ph10; todo10 : list ob10 }.
Definition q10_set (q : q10) (p : ph10) (t : list ob10) : q10 :=
  {| apps10 := apps10 q; cup10 := cup10 q; ph10_ := p; todo10 := t |}.
Definition delivered (cup : bool) (o : http_outcome) : bool :=
  match o with HResp st _ au _ => (negb cup || au) && is_2xx st | HErr _ => false end.
Definition optional10 (o : ob10) : bool := match o with OReport [] [] => true | _ => false end.
Definition after_lost (l : list code3) (rest : list ob10) : list ob10 :=
  match l with [] => rest | _ => OLost l :: rest end.
Definition no_offers (d : doc) : bool := match filter uc_ok (d_apps d) with [] => true | _ => false end.

Definition step10 (q : q10) (a : action) : option q10 :=
  match a with
  | AEvent (EvState (CheckingForUpdates _)) =>
      match ph10_ q, todo10 q with X0, [] => Some (q10_set q XAtt []) | _, _ => None end
  | AMetric (MRequestsPerCheck _ ok) =>
      match ph10_ q, todo10 q with XAtt, [] => Some (q10_set q (if ok then XBody else XDone) []) | _, _ => None end
  | AEvent (EvState ErrorCheckingForUpdate) =>
      match ph10_ q, todo10 q with
      | XAtt, [] => Some q
      | XBody, [] => Some (q10_set q XDone [OReport (exp_all c_parse_error (apps10 q)) [c_parse_error]])
      | _, _ => None
      end
  | AEvent (EvServerResponse d) =>
      match ph10_ q, todo10 q with
      | XBody, [] => Some (q10_set q (if no_offers d then XDone else XOffer d) [])
      | _, _ => None
      end
  | AInstaller (ICreatePlan _ _ _ _) (IPlan pl) =>
      match ph10_ q, todo10 q with
      | XOffer d, [] =>
          match pl with
          | None => Some (q10_set q XDone [OReport (exp_offered c_plan_error d (apps10 q)) [c_plan_error]])
          | Some _ => Some (q10_set q (XPlan d) [])
          end
      | _, _ => None
      end
  | APolicy (QCanStart _) (PUDecision dec) =>
      match ph10_ q, todo10 q with
      | XPlan d, [] =>
          match dec with
          | UDeferred => Some (q10_set q XDone [OReport (exp_offered c_deferred d (apps10 q)) [c_deferred]])
          | UDenied => Some (q10_set q XDone [OReport (exp_offered c_denied d (apps10 q)) [c_denied]])
          | UOk => Some (q10_set q (XInstall d) [OReport (exp_offered c_started d (apps10 q)) [c_started]])
          end
      | _, _ => None
      end
  | AInstaller (IPerform _) (IPerformed pa) =>
      match ph10_ q, todo10 q with
      | XInstall d, [] =>
          let er := exp_results d (pa_results pa) (apps10 q) in
          let ec := exp_complete d (pa_results pa) (apps10 q) in
          Some (q10_set q XDone (OReport er (map x_code er)
                                 :: match ec with [] => [] | _ => [OReport ec [c_complete]] end))
      | _, _ => None
      end
  | AHttp w o =>
      match todo10 q with
      | OReport exp lost :: rest =>
          if report_ok exp w
          then Some (q10_set q (ph10_ q) (if delivered (cup10 q) o then rest else after_lost lost rest))
          else None
      | OLost _ :: _ => None
      | [] =>
          match ph10_ q with
          | X0 | XAtt => match total_events w with O => Some q | S _ => None end
          | _ => None
          end
      end
  | AMetric (MOmahaEventLost ev) =>
      match todo10 q with
      | OReport _ (c :: l) :: rest | OLost (c :: l) :: rest =>
          if code3_eqb (ev_code ev) c then Some (q10_set q (ph10_ q) (after_lost l rest)) else None
      | _ => None
      end
  | AEvent (EvResult _) =>
      match ph10_ q with
      | XDone => if forallb optional10 (todo10 q) then Some (q10_set q X0 []) else None
      | _ => None
      end
  | _ => Some q
  end.

Definition init10 (cup : option N) (apps : list app) : q10 :=
  {| apps10 := map (fun a => (a_id a, Version.print (a_ver a))) apps;
     cup10 := match cup with Some _ => true | None => false end; ph10_ := X0; todo10 := [] |}.

(* ------------------------------------------------------------------ C04 *)
(* The event stream of every check names the path actually taken.  The facts (outcome of the last attempt, the
   document, the installer's and the policy's answers) are read from the trace itself; the monitor then dictates
   which state events may follow, in which order, and what the result must be. *)
Definition doc_eq_dec : forall a b : doc, {a = b} + {a <> b}.
Proof. repeat decide equality. Defined.
Definition resps_eq_dec : forall a b : list app_response, {a = b} + {a <> b}.
Proof. repeat decide equality. Defined.
Definition state_eq_dec : forall a b : state, {a = b} + {a <> b}.
Proof. repeat decide equality. Defined.
Definition sched_eq_dec : forall a b : sched, {a = b} + {a <> b}.
Proof. repeat decide equality. Defined.
Definition pstate_eq_dec : forall a b : pstate, {a = b} + {a <> b}.
Proof. repeat decide equality. Defined.

Inductive xres := XRFail (parse : bool) | XRPlan | XROk (rs : list app_response).
Inductive xe := XState (s : state) | XErrEv | XSched | XProto | XResult.
Inductive ph4 :=
| Y0 | YAtt (last : option http_outcome) | YDoc (d : doc) | YPlanned (d : doc) | YApproved (d : doc) | YInstalling (d : doc)
| YNeedRN (rs : list app_response) | YExpect (l : list xe) (x : xres) (rb : bool) | YAfter (rb : bool) | YReboot.
Record q4 := { cup4 : bool; ph4_ : ph4; pend4 : option sched; fin4 : option (sched * pstate) }.
Definition q4_ph (q : q4) (p : ph4) : q4 := {| cup4 := cup4 q; ph4_ := p; pend4 := pend4 q; fin4 := fin4 q |}.

(* the body of a response that may be acted upon: authenticated (when CUP is configured) and 2xx *)
Definition usable (cup : bool) (o : option http_outcome) : option body :=
  match o with
  | Some (HResp st _ au b) => if (negb cup || au) && is_2xx st then Some b else None
  | _ => None
  end.
Definition ds_of (d : doc) : option N := match d_daystart d with Some x => x | None => None end.
Definition tail4 : list xe := [XSched; XProto; XResult].
Definition res_ok (x : xres) (r : check_err + list app_response) : bool :=
  match x, r with
  | XRFail true, inl CEResponseParser => true
  | XRFail false, inl (CEOmahaRequest _) => true
  | XRPlan, inl CEInstallPlan => true
  | XROk rs, inr rs' => if resps_eq_dec rs rs' then true else false
  | _, _ => false
  end.
Definition failed_count (d : doc) (results : list ares) : nat :=
  length (filter (fun r => match r with RFailed => true | _ => false end) (firstn (length (filter uc_ok (d_apps d))) results)).

Definition step4_event (q : q4) (ev : sm_event) : option q4 :=
  match ev with
  | EvProgress _ => match ph4_ q with YNeedRN _ | YExpect _ _ _ => Some q | _ => None end
  | EvProtocol ps =>
      match ph4_ q with
      | YExpect (XProto :: l) x rb =>
          match pend4 q with
          | Some s => Some {| cup4 := cup4 q; ph4_ := YExpect l x rb; pend4 := None; fin4 := Some (s, ps) |}
          | None => None
          end
      | _ => Some q
      end
  | EvSchedule s =>
      match ph4_ q with
      | YExpect (XSched :: l) x rb => Some {| cup4 := cup4 q; ph4_ := YExpect l x rb; pend4 := Some s; fin4 := fin4 q |}
      | Y0 | YReboot => Some q
      | _ => None
      end
  | EvServerResponse d =>
      match ph4_ q with
      | YAtt last =>
          match usable (cup4 q) last with
          | Some (BDoc d') =>
              if doc_eq_dec d d'
              then Some (q4_ph q (if no_offers d
                                  then YExpect (XState NoUpdateAvailable :: tail4) (XROk (make_app_responses d ANoUpdate)) false
                                  else YDoc d))
              else None
          | _ => None
          end
      | _ => None
      end
  | EvInstallerError => match ph4_ q with YExpect (XErrEv :: l) x rb => Some (q4_ph q (YExpect l x rb)) | _ => None end
  | EvResult r =>
      match ph4_ q with
      | YExpect [XResult] x rb => if res_ok x r then Some (q4_ph q (YAfter rb)) else None
      | _ => None
      end
  | EvState s =>
      match ph4_ q with
      | Y0 => match s with CheckingForUpdates _ => Some (q4_ph q (YAtt None)) | _ => None end
      | YAtt last =>
          match s with
          | ErrorCheckingForUpdate =>
              match usable (cup4 q) last with
              | None => Some (q4_ph q (YExpect tail4 (XRFail false) false))
              | Some BBad => Some (q4_ph q (YExpect tail4 (XRFail true) false))
              | Some (BDoc _) => None
              end
          | _ => None
          end
      | YApproved d => match s with InstallingUpdate => Some (q4_ph q (YInstalling d)) | _ => None end
      | YExpect (XState s' :: l) x rb => if state_eq_dec s s' then Some (q4_ph q (YExpect l x rb)) else None
      | YAfter rb =>
          match s with
          | WaitingForReboot => if rb then Some (q4_ph q YReboot) else None
          | Idle => if rb then None else Some (q4_ph q Y0)
          | _ => None
          end
      | YReboot => match s with Idle => Some (q4_ph q Y0) | _ => None end
      | _ => None
      end
  end.

Definition step4 (q : q4) (a : action) : option q4 :=
  match a with
  | AEvent ev => step4_event q ev
  | AHttp _ o =>
      Some {| cup4 := cup4 q; ph4_ := match ph4_ q with YAtt _ => YAtt (Some o) | p => p end; pend4 := pend4 q; fin4 := None |}
  | APolicy (QNextTime _ s p) _ =>
      match fin4 q with
      | Some (s0, p0) => if sched_eq_dec s s0 then if pstate_eq_dec p p0
                         then Some {| cup4 := cup4 q; ph4_ := ph4_ q; pend4 := pend4 q; fin4 := None |} else None else None
      | None => Some q
      end
  | AInstaller (ICreatePlan _ _ _ _) (IPlan pl) =>
      match ph4_ q with
      | YDoc d => Some (q4_ph q (match pl with
                                 | None => YExpect (XState InstallingUpdate :: XState InstallationError :: tail4) XRPlan false
                                 | Some _ => YPlanned d end))
      | _ => None
      end
  | APolicy (QCanStart _) (PUDecision dec) =>
      match ph4_ q with
      | YPlanned d =>
          Some (q4_ph q (match dec with
                         | UDeferred => YExpect (XState InstallationDeferredByPolicy :: tail4) (XROk (make_app_responses d ADeferredByPolicy)) false
                         | UDenied => YExpect tail4 (XROk (make_app_responses d ADeniedByPolicy)) false
                         | UOk => YApproved d end))
      | _ => None
      end
  | AInstaller (IPerform _) (IPerformed pa) =>
      match ph4_ q with
      | YInstalling d =>
          let rs := assign_results (d_apps d) (pa_results pa) (ds_of d) in
          Some (q4_ph q (match failed_count d (pa_results pa) with
                         | O => YNeedRN rs
                         | S n => YExpect (repeat XErrEv (S n) ++ XState InstallationError :: tail4) (XROk rs) false
                         end))
      | _ => None
      end
  | APolicy (QRebootNeeded _) (PBool rn) =>
      match ph4_ q with YNeedRN rs => Some (q4_ph q (YExpect tail4 (XROk rs) rn)) | _ => None end
  | _ => Some q
  end.

Definition init4 (cup : option N) : q4 :=
  {| cup4 := match cup with Some _ => true | None => false end; ph4_ := Y0; pend4 := None; fin4 := None |}.

(* ------------------------------------------------------------------ C12 *)
(* Before every wait: the policy's answer to the next-time question is announced as the schedule's next update time and
   then exactly its timers are armed - the minimum wait first when there is one, then the time bound - with nothing in
   between (control traffic aside).  A time-bound timer is never armed otherwise; every schedule announcement carries
   the latest answer.  (Which timers must have fired before a check or ping starts is not visible in the trace: that
   clause is the theorem about the select in Props/C12.v.) *)
Definition timing_eq_dec : forall a b : timing, {a = b} + {a <> b}.
Proof. repeat decide equality. Defined.
Definition wait_eq_dec : forall a b : wait, {a = b} + {a <> b}.
Proof. repeat decide equality. Defined.
Inductive ob12 := ObSched (t : timing) | ObArm (w : wait).
Record q12 := { todo12 : list ob12; next12 : option timing }.
Definition timers_of (t : timing) : list ob12 :=
  match t_min t with
  | Some d => [ObArm (WFor d); ObArm (WUntil (t_time t))]
  | None => [ObArm (WUntil (t_time t))]
  end.
Definition otiming_eqb (a b : option timing) : bool :=
  match a, b with
  | Some x, Some y => if timing_eq_dec x y then true else false
  | None, None => true
  | _, _ => false
  end.
Definition step12 (q : q12) (a : action) : option q12 :=
  match a with
  | ARequest _ _ | AReply _ _ => Some q
  | APolicy (QNextTime _ _ _) (PTiming t) =>
      match todo12 q with
      | [] => Some {| todo12 := ObSched t :: timers_of t; next12 := Some t |}
      | _ => None
      end
  | AEvent (EvSchedule s) =>
      match todo12 q with
      | ObSched t :: rest => if otiming_eqb (s_next s) (Some t) then Some {| todo12 := rest; next12 := next12 q |} else None
      | [] => match next12 q with
              | Some t => if otiming_eqb (s_next s) (Some t) then Some q else None
              | None => Some q         (* before the first question: whatever was loaded *)
              end
      | _ => None
      end
  | ATimer w =>
      match todo12 q with
      | ObArm w' :: rest => if wait_eq_dec w w' then Some {| todo12 := rest; next12 := next12 q |} else None
      | [] => match w with WFor _ => Some q | WUntil _ => None end
      | _ => None
      end
  | _ => match todo12 q with [] => Some q | _ => None end
  end.
Definition init12 : q12 := {| todo12 := []; next12 := None |}.

(* ------------------------------------------------------------------ C09 *)
(* The monitor keeps the app set as it must currently be: initially what the state machine was built with (stored
   values restored into unset fields, Props/C09.v), updated by update_from_omaha (characterised in Props/C09.v) with the
   result of every successful check and with the response of every successful ping, and by nothing else.  Every
   request must carry, app by app, the current cohort and (when it pings) the current dates; the policy is always
   shown the current app set; and right after a successful check's result / a successful ping's response every app is
   written to storage with exactly its current persisted form, in order, followed by a commit, before anything else
   happens (after a ping the new last-contact time is announced first, and a changed poll interval may be stored). *)
Inductive ob9 := ObS | ObW (k v : bytes) | ObC.
Record q9 := { cup9 : bool; in9 : bool; apps9 : list app; todo9 : list ob9 }.
Definition cohort_eq_dec : forall a b : cohort, {a = b} + {a <> b}.
Proof. repeat decide equality. Defined.
Definition oN_eqb (a b : option N) : bool :=
  match a, b with Some x, Some y => (x =? y)%N | None, None => true | _, _ => false end.
Definition wa_current (apps : list app) (wa : wapp) : bool :=
  existsb (fun a => bytes_eqb (a_id a) (wa_id wa)
                    && (if cohort_eq_dec (wa_cohort wa) (a_cohort a) then true else false)
                    && match wa_ping wa with
                       | None => true
                       | Some (ad, rd) => oN_eqb ad (a_uc a) && oN_eqb rd (a_uc a)
                       end) apps.
Definition req_current (apps : list app) (w : wire) : bool := forallb (wa_current apps) (ws_apps (w_sum w)).
Definition writes9 (apps : list app) : list ob9 := map (fun a => ObW (a_id a) (persisted_json a)) apps ++ [ObC].
Definition q9_set (q : q9) (i : bool) (apps : list app) (t : list ob9) : q9 :=
  {| cup9 := cup9 q; in9 := i; apps9 := apps; todo9 := t |}.

Definition step9 (q : q9) (a : action) : option q9 :=
  match a with
  | AClock _ | AMetric _ | ARequest _ _ | AReply _ _ | ATimer _ => Some q
  | AEvent (EvSchedule _) =>
      match todo9 q with ObS :: rest => Some (q9_set q (in9 q) (apps9 q) rest) | _ => Some q end
  | AEvent (EvProtocol _) =>
      match todo9 q with [] | ObS :: _ => Some q | _ => None end
  | AStore op _ =>
      match todo9 q with
      | [] | ObS :: _ => Some q
      | o :: rest =>
          match op with
          | SSetInt _ _ | SRemove _ => Some q
          | SSetStr k v =>
              match o with
              | ObW k' v' => if bytes_eqb k k' && bytes_eqb v v' then Some (q9_set q (in9 q) (apps9 q) rest) else None
              | _ => None
              end
          | SCommit => match o with ObC => Some (q9_set q (in9 q) (apps9 q) rest) | _ => None end
          end
      end
  | _ =>
      match todo9 q with
      | _ :: _ => None
      | [] =>
          match a with
          | AEvent (EvState (CheckingForUpdates _)) => Some (q9_set q true (apps9 q) [])
          | AEvent (EvResult r) =>
              let apps' := match r with inr rs => update_from_omaha (apps9 q) rs | inl _ => apps9 q end in
              Some (q9_set q false apps' (writes9 apps'))
          | AHttp w o =>
              if req_current (apps9 q) w then
                if in9 q then Some q
                else match usable (cup9 q) (Some o) with
                     | Some (BDoc d) =>
                         let apps' := update_from_omaha (apps9 q) (make_app_responses d ANoUpdate) in
                         Some (q9_set q false apps' (ObS :: writes9 apps'))
                     | _ => Some q
                     end
              else None
          | APolicy (QNextTime apps _ _) _ | APolicy (QCheckAllowed apps _ _ _) _ =>
              if apps_eq_dec apps (apps9 q) then Some q else None
          | _ => Some q
          end
      end
  end.

Definition init9 (cup : option N) (apps : list app) (st : storage) : q9 :=
  {| cup9 := match cup with Some _ => true | None => false end; in9 := false;
     apps9 := map (app_load (pend st)) apps; todo9 := [] |}.

(* ------------------------------------------------------------------ C08 *)
(* The monitor keeps the two bookkeeping values as they must be: the consecutive-failure count (reset by a successful
   check or ping, incremented - saturating - by a failed one) and the last-contact time (the clock reading taken when
   a check ended with an answer from the server - success, unparseable body, unusable plan - or a ping succeeded;
   untouched otherwise).  It demands that the schedule and protocol state announced with each result carry exactly
   these values, that the policy is always shown them, and that right after the result they are written (time at
   microsecond precision, count removed when zero) together with the poll interval and the apps and committed before
   anything else happens.  pw8: whether a ping can be put on the wire at all (valid service URL and header values); when
   it cannot, failed pings leave no trace and the count shown to the policy is taken on trust. *)
Inductive ob8 := ObLU (op : store_op) | ObAnyCtx | ObFails (op : store_op) | ObApps.
Record q8 := {
  cup8 : bool; pw8 : bool; in8 : bool;
  fails8 : Z; lu8 : option pct;
  clk8 : option ctime;                        (* the latest clock reading *)
  tsched8 : option (sched * option ctime);    (* schedule announced in this check's tail, and the reading then current *)
  tps8 : option pstate;                       (* protocol state announced in this check's tail *)
  pfail8 : option bool;                       (* a ping's outcome not yet reflected in what the policy was shown *)
  await8 : bool;                              (* a ping succeeded: the next schedule announcement carries the new time *)
  todo8 : list ob8 }.
Definition lu_store_op (lu : option pct) : store_op :=
  match (match lu with Some p => pct_to_micros p | None => None end) with
  | Some us => SSetInt K_LAST_UPDATE_TIME us
  | None => SRemove K_LAST_UPDATE_TIME
  end.
Definition fails_store_op (f : Z) : store_op := if f =? 0 then SRemove K_FAILED_CHECKS else SSetInt K_FAILED_CHECKS f.
Definition answered (r : check_err + list app_response) : bool :=
  match r with inr _ | inl CEResponseParser | inl CEInstallPlan => true | inl (CEOmahaRequest _) => false end.
Definition fails_after (p : option bool) (f : Z) : Z :=
  match p with None => f | Some true => 0 | Some false => sat_inc_u32 f end.
Definition opct_eqb (a b : option pct) : bool := if opct_eq_dec a b then true else false.
Definition q8_todo (q : q8) (t : list ob8) : q8 :=
  {| cup8 := cup8 q; pw8 := pw8 q; in8 := in8 q; fails8 := fails8 q; lu8 := lu8 q; clk8 := clk8 q; tsched8 := tsched8 q;
     tps8 := tps8 q; pfail8 := pfail8 q; await8 := await8 q; todo8 := t |}.

Definition step8 (q : q8) (a : action) : option q8 :=
  match a with
  | ARequest _ _ | AReply _ _ | AMetric _ | ATimer _ => Some q
  | AClock c =>
      Some {| cup8 := cup8 q; pw8 := pw8 q; in8 := in8 q; fails8 := fails8 q; lu8 := lu8 q; clk8 := Some c; tsched8 := tsched8 q;
              tps8 := tps8 q; pfail8 := pfail8 q; await8 := await8 q; todo8 := todo8 q |}
  | AStore op _ =>
      match todo8 q with
      | [] => Some q
      | ObLU x :: rest | ObFails x :: rest => if store_op_eqb op x then Some (q8_todo q rest) else None
      | ObAnyCtx :: rest => match op with SSetInt _ _ | SRemove _ => Some (q8_todo q rest) | _ => None end
      | ObApps :: rest => match op with SSetStr _ _ => Some q | SCommit => Some (q8_todo q rest) | _ => None end
      end
  | _ =>
      match todo8 q with
      | _ :: _ => None
      | [] =>
          match a with
          | AEvent (EvState (CheckingForUpdates _)) =>
              if in8 q then None
              else Some {| cup8 := cup8 q; pw8 := pw8 q; in8 := true; fails8 := fails_after (pfail8 q) (fails8 q); lu8 := lu8 q; clk8 := clk8 q;
                           tsched8 := None; tps8 := None; pfail8 := None; await8 := false; todo8 := [] |}
          | AEvent (EvSchedule s) =>
              if in8 q then
                Some {| cup8 := cup8 q; pw8 := pw8 q; in8 := true; fails8 := fails8 q; lu8 := lu8 q; clk8 := clk8 q;
                        tsched8 := Some (s, clk8 q); tps8 := None; pfail8 := pfail8 q; await8 := await8 q; todo8 := [] |}
              else if await8 q then
                match clk8 q with
                | Some c => if opct_eqb (s_last_update s) (Some (PComplex c))
                            then Some {| cup8 := cup8 q; pw8 := pw8 q; in8 := false; fails8 := fails8 q; lu8 := Some (PComplex c); clk8 := clk8 q;
                                         tsched8 := None; tps8 := None; pfail8 := pfail8 q; await8 := false; todo8 := [] |}
                            else None
                | None => None
                end
              else if opct_eqb (s_last_update s) (lu8 q) then Some q else None
          | AEvent (EvProtocol ps) =>
              if in8 q then
                match tsched8 q with
                | Some _ => Some {| cup8 := cup8 q; pw8 := pw8 q; in8 := true; fails8 := fails8 q; lu8 := lu8 q; clk8 := clk8 q;
                                    tsched8 := tsched8 q; tps8 := Some ps; pfail8 := pfail8 q; await8 := await8 q; todo8 := [] |}
                | None => if ps_fails ps =? fails8 q then Some q else None
                end
              else if negb (pw8 q) || (ps_fails ps =? fails8 q) then Some q else None
          | AEvent (EvResult r) =>
              match in8 q, tsched8 q, tps8 q with
              | true, Some (s, c), Some ps =>
                  let lu' := if answered r then match c with Some c => Some (PComplex c) | None => None end else lu8 q in
                  let f' := match r with inr _ => 0 | inl _ => sat_inc_u32 (fails8 q) end in
                  if opct_eqb (s_last_update s) lu' && (ps_fails ps =? f')
                  then Some {| cup8 := cup8 q; pw8 := pw8 q; in8 := false; fails8 := f'; lu8 := lu'; clk8 := clk8 q; tsched8 := None; tps8 := None;
                               pfail8 := None; await8 := false;
                               todo8 := [ObLU (lu_store_op lu'); ObAnyCtx; ObFails (fails_store_op f'); ObApps] |}
                  else None
              | _, _, _ => None
              end
          | AHttp _ o =>
              if in8 q then Some q
              else
                let ok := match usable (cup8 q) (Some o) with Some (BDoc _) => true | _ => false end in
                Some {| cup8 := cup8 q; pw8 := pw8 q; in8 := false; fails8 := fails_after (pfail8 q) (fails8 q); lu8 := lu8 q; clk8 := clk8 q;
                        tsched8 := None; tps8 := None; pfail8 := Some ok; await8 := ok; todo8 := [] |}
          | APolicy (QNextTime _ s ps) _ | APolicy (QCheckAllowed _ s ps _) _ =>
              if in8 q then None
              else
                let f' := fails_after (pfail8 q) (fails8 q) in
                if opct_eqb (s_last_update s) (lu8 q) && (negb (pw8 q) || (ps_fails ps =? f'))
                then Some {| cup8 := cup8 q; pw8 := pw8 q; in8 := false; fails8 := if pw8 q then f' else ps_fails ps; lu8 := lu8 q; clk8 := clk8 q;
                             tsched8 := None; tps8 := None; pfail8 := None; await8 := await8 q; todo8 := [] |}
                else None
          | _ => Some q
          end
      end
  end.

(* can a ping be put on the wire at all: a valid service URL and header values the http crate accepts *)
Definition ping_wireable (cfg : config) (url : urlparts) (apps : list app) : bool :=
  u_valid url && headers_ok cfg (add_ops (builder_new ping_params) (map OpPing apps)).
Definition init8 (cfg : config) (url : urlparts) (cup : option N) (apps : list app) (st : storage) : q8 :=
  let '(sc, ps) := ctx_load (pend st) in
  {| cup8 := match cup with Some _ => true | None => false end; pw8 := ping_wireable cfg url apps; in8 := false;
     fails8 := ps_fails ps; lu8 := s_last_update sc; clk8 := None; tsched8 := None; tps8 := None; pfail8 := None; await8 := false;
     todo8 := [] |}.
