(* Model/MockServer.v — mock-omaha-server/src/lib.rs (all non-test code that
   decides a reply):
     OmahaResponse / ResponseAndMetadata / UpdateCheckAssertion   (49-82, 127-131)
     PrivateKeys::find                                             (100-112)
     OmahaServer + set_all_*                                       (192-217)
     make_etag                                                     (359-406)   REPAIRED reading, see below
     handle_request                                                (408-418)
     handle_set_responses                                          (420-441)
     handle_omaha_request                                          (443-686)
   and, for the client side of the same exchange,
     http_uri_ext.rs append_query_parameter                        (53-69)
   Definitions only; facts are in Proofs/MockServerFacts.v.

   make_etag.  The code on the pinned tree takes the FIRST query pair and
   asserts that its name is cup2key (and unwraps the absence of any pair): it
   panics for `/service/update` and for `/?foo=bar&cup2key=..` (DESIGN.md
   section 5, D5).  The client APPENDS cup2key to whatever query the service
   URL already has (append_query_parameter), so every service URL with a query
   hits the second case and every service URL with a path and no CUP the
   first.  The model is the repaired behaviour: the first pair NAMED cup2key,
   wherever it stands; no ETag when there is none or the key id is unknown.
   [d5_class] is the input class on which the unrepaired code panics instead.

   Modelling notes.
   - serde_json::Value (no preserve_order): objects are BTreeMaps, a repeated
     key keeps its last value ([vget]); json!({..}) inserts in source order
     into a BTreeMap ([mk_obj]), so the printed reply has its keys sorted.
   - serde_json::from_slice::<Value> keeps every value: strings must decode
     (no lone surrogates, valid UTF-8) and at most 127 containers may be open
     ([kept_ok 0] of Model/Response.v).  Not modelled: the f64 overflow check
     of a float literal (the client never writes floats).
   - url 1.7 Url::parse("https://example.com" ++ uri).query_pairs(): for the
     bytes http::Uri lets through in a query (0x21, 0x24-0x3B, 0x3D,
     0x3F-0x7E) the parser keeps the query verbatim, and query_pairs is
     form_urlencoded::parse: split at '&', drop empty pieces, split at the
     first '=', '+' -> ' ', percent-decode, lossy UTF-8.  Sub-language: the
     decoded names and values are valid UTF-8 ([query_in_domain]).
   - secret keys are abstract handles (N); SHA-256 and ECDSA signing (p256
     SigningKey::sign + to_der, RFC 6979: a function of key and message) are
     Section variables next to Cup.v's. *)
Require Import Verif.Base.Bytes Verif.Model.Version Verif.Model.Json Verif.Model.Proto
               Verif.Model.Request Verif.Model.Response Verif.Model.Cup.
Open Scope N_scope.

(* ------------------------------------------------------------------ *)
(* configuration                                                       *)

Inductive omaha_response := NoUpdate | Update | UrgentUpdate | InvalidResponse | InvalidURL.   (* lib.rs:49-56 *)
Inductive update_check_assertion := UpdatesEnabled | UpdatesDisabled.                         (* lib.rs:127-131 *)

Record response_and_metadata := {                                                             (* lib.rs:58-66 *)
  rm_response : omaha_response;
  rm_check : update_check_assertion;
  rm_version : option bytes;
  rm_cohort : option bytes;
  rm_codebase : bytes;
  rm_package : bytes }.

Definition rm_default : response_and_metadata :=                                              (* lib.rs:68-82 *)
  {| rm_response := NoUpdate; rm_check := UpdatesEnabled; rm_version := Some (s2b "0.1.2.3");
     rm_cohort := None; rm_codebase := s2b "fuchsia-pkg://integration.test.fuchsia.com/";
     rm_package := s2b "update?hash=deadbeefdeadbeefdeadbeefdeadbeefdeadbeefdeadbeefdeadbeefdeadbeef" |}.

(* ResponseMap = HashMap<String, ResponseAndMetadata>: at most one binding per key *)
Definition response_map := list (bytes * response_and_metadata).
Fixpoint rmap_get (k : bytes) (m : response_map) : option response_and_metadata :=
  match m with
  | [] => None
  | (k', r) :: t => if bytes_eqb k' k then Some r else rmap_get k t
  end.
Definition rmap_remove (k : bytes) (m : response_map) : response_map :=
  filter (fun kv => negb (bytes_eqb (fst kv) k)) m.
(* HashMap::insert: replaces the value of an existing key *)
Definition rmap_insert (k : bytes) (r : response_and_metadata) (m : response_map) : response_map :=
  (k, r) :: rmap_remove k m.

(* PrivateKeys (lib.rs:94-112): (key id, secret key handle) *)
Record private_keys := { keys_latest : N * N; keys_historical : list (N * N) }.
Fixpoint find_in (id : N) (l : list (N * N)) : option N :=
  match l with
  | [] => None
  | (i, k) :: r => if i =? id then Some k else find_in id r
  end.
(* find: latest first, then the historical keys in order; the FIRST match wins *)
Definition find_key (ks : private_keys) (id : N) : option N :=
  find_in id (keys_latest ks :: keys_historical ks).

Record server := {                                                                            (* lib.rs:192-203 *)
  s_responses : response_map;
  s_keys : private_keys;
  s_etag_override : option bytes;
  s_require_cup : bool }.

Definition with_responses (s : server) (m : response_map) : server :=
  {| s_responses := m; s_keys := s_keys s; s_etag_override := s_etag_override s; s_require_cup := s_require_cup s |}.

(* lib.rs:205-217 *)
Definition set_all_update_check_assertions (s : server) (v : update_check_assertion) : server :=
  with_responses s (map (fun kv => (fst kv,
     {| rm_response := rm_response (snd kv); rm_check := v; rm_version := rm_version (snd kv);
        rm_cohort := rm_cohort (snd kv); rm_codebase := rm_codebase (snd kv); rm_package := rm_package (snd kv) |}))
     (s_responses s)).
Definition set_all_cohort_assertions (s : server) (v : option bytes) : server :=
  with_responses s (map (fun kv => (fst kv,
     {| rm_response := rm_response (snd kv); rm_check := rm_check (snd kv); rm_version := rm_version (snd kv);
        rm_cohort := v; rm_codebase := rm_codebase (snd kv); rm_package := rm_package (snd kv) |}))
     (s_responses s)).

(* ------------------------------------------------------------------ *)
(* serde_json::Value                                                    *)

(* Value::get(key) on an object whose repeated keys kept their last value *)
Fixpoint vget_kvs (k : bytes) (kvs : list (bytes * bool * json)) : option json :=
  match kvs with
  | [] => None
  | (k', _, v) :: r =>
      match vget_kvs k r with
      | Some x => Some x
      | None => if bytes_eqb k' k then Some v else None
      end
  end.
Definition vget (k : string) (j : json) : option json :=
  match j with JObj kvs => vget_kvs (s2b k) kvs | _ => None end.

(* serde_json::from_slice::<Value> *)
Definition parse_value (b : bytes) : option json :=
  match parse_json b with
  | Some j => if kept_ok 0 j then Some j else None
  | None => None
  end.

(* String's Ord: byte-wise lexicographic *)
Fixpoint bytes_cmp (a b : bytes) : comparison :=
  match a, b with
  | [], [] => Eq
  | [], _ :: _ => Lt
  | _ :: _, [] => Gt
  | x :: a', y :: b' => match N.compare x y with Eq => bytes_cmp a' b' | c => c end
  end.
(* BTreeMap::insert *)
Fixpoint bt_insert (key : bytes) (v : json) (l : list (bytes * bool * json)) : list (bytes * bool * json) :=
  match l with
  | [] => [(key, true, v)]
  | (key', o, v') :: r =>
      match bytes_cmp key key' with
      | Lt => (key, true, v) :: l
      | Eq => (key, true, v) :: r
      | Gt => (key', o, v') :: bt_insert key v r
      end
  end.
(* json!({ k1: v1, k2: v2, .. }) *)
Definition mk_obj (l : list (string * json)) : json :=
  JObj (fold_left (fun acc kv => bt_insert (s2b (fst kv)) (snd kv) acc) l []).
Definition jt (s : string) : json := JStr true (s2b s).

(* ------------------------------------------------------------------ *)
(* handle_omaha_request: per-app reply assembly (lib.rs:479-655)        *)

Definition invalid_url_codebase : bytes := s2b "http://integration.test.fuchsia.com/".

Definition manifest_json (pkg : bytes) : json :=
  mk_obj [("version"%string, jt "0.1.2.3");
          ("actions"%string, mk_obj [("action"%string, JArr [mk_obj [("run"%string, JStr true pkg); ("event"%string, jt "install")];
                                               mk_obj [("event"%string, jt "postinstall")]])]);
          ("packages"%string, mk_obj [("package"%string, JArr [mk_obj [("name"%string, JStr true pkg); ("fp"%string, jt "2.0.1.2.3");
                                                         ("required"%string, JBool true)]])])].
Definition urls_json (codebase : bytes) : json :=
  mk_obj [("url"%string, JArr [mk_obj [("codebase"%string, JStr true codebase)]])].

Definition updatecheck_json (e : response_and_metadata) : json :=
  match rm_response e with
  | Update =>
      mk_obj [("status"%string, jt "ok"); ("urls"%string, urls_json (rm_codebase e)); ("manifest"%string, manifest_json (rm_package e))]
  | UrgentUpdate =>
      mk_obj [("status"%string, jt "ok"); ("urls"%string, urls_json (rm_codebase e)); ("manifest"%string, manifest_json (rm_package e));
              ("_urgent_update"%string, JBool true)]
  | NoUpdate => mk_obj [("status"%string, jt "noupdate")]
  | InvalidResponse => mk_obj [("invalid_status"%string, jt "invalid")]
  | InvalidURL =>
      mk_obj [("status"%string, jt "ok"); ("urls"%string, urls_json invalid_url_codebase); ("manifest"%string, manifest_json (rm_package e))]
  end.

Definition app_json (appid : json) (updatecheck : option json) : json :=
  mk_obj ([("cohorthint"%string, jt "integration-test"); ("appid"%string, appid); ("cohort"%string, jt "1:1:"); ("status"%string, jt "ok");
           ("cohortname"%string, jt "integration-test")]
          ++ match updatecheck with Some u => [("updatecheck"%string, u)] | None => [] end).

Definition assertion_holds (c : update_check_assertion) (updatedisabled : bool) : bool :=
  match c with UpdatesEnabled => negb updatedisabled | UpdatesDisabled => updatedisabled end.

(* None = a panic (unwrap / expect / assert / HashMap index) *)
Definition app_reply (m : response_map) (app : json) : option json :=
  match vget "appid" app with
  | Some (JStr ok id) =>                                    (* appid.as_str().unwrap() *)
      match rmap_get id m with                              (* responses_by_appid[..] *)
      | None => None
      | Some e =>
          let version_ok :=                                 (* 483-486 *)
            match rm_version e with
            | None => true
            | Some v => match vget "version" app with Some (JStr _ s) => bytes_eqb s v | _ => false end
            end in
          if negb version_ok then None else
          match vget "updatecheck" app with
          | Some uc =>
              let updatedisabled :=                         (* 489-492 *)
                match vget "updatedisabled" uc with
                | None => Some false
                | Some (JBool b) => Some b
                | Some _ => None
                end in
              match updatedisabled with
              | None => None
              | Some d =>
                  let cohort_ok :=                          (* 502-511 *)
                    match rm_cohort e with
                    | None => true
                    | Some c => match vget "cohort" app with Some (JStr _ s) => bytes_eqb s c | _ => false end
                    end in
                  if assertion_holds (rm_check e) d && cohort_ok
                  then Some (app_json (JStr ok id) (Some (updatecheck_json e)))
                  else None
              end
          | None =>
              match vget "event" app with                   (* 641 *)
              | Some _ => Some (app_json (JStr ok id) None)
              | None => None
              end
          end
      end
  | _ => None
  end.

Definition has_updatecheck (app : json) : bool :=
  match vget "updatecheck" app with Some _ => true | None => false end.

Definition response_json (apps : list json) : json :=                       (* 656-666 *)
  mk_obj [("response"%string,
           mk_obj [("server"%string, jt "prod"); ("protocol"%string, jt "3.0");
                   ("daystart"%string, mk_obj [("elapsed_seconds"%string, JInt false 48810); ("elapsed_days"%string, JInt false 4775)]);
                   ("app"%string, JArr apps)])].

(* the reply body for a request body, given the configured map; None = panic.
   (lib.rs:462-668; the caller has checked that the map is not empty) *)
Definition server_body (m : response_map) (req_body : bytes) : option bytes :=
  match parse_value req_body with
  | None => None
  | Some j =>
      match vget "request" j with
      | None => None
      | Some rq =>
          match vget "app" rq with
          | Some (JArr apps) =>
              let n := length (filter has_updatecheck apps) in
              if Nat.eqb n 0 || Nat.eqb n (length m) then           (* 469-477 *)
                match all_some (map (app_reply m) apps) with
                | Some rs => Some (print_json (response_json rs))
                | None => None
                end
              else None
          | _ => None
          end
      end
  end.

(* ------------------------------------------------------------------ *)
(* the request URI                                                      *)

(* origin-form text as http::Uri prints it: path, then '?' query if any *)
Definition uri_path (uri : bytes) : bytes :=
  match split_once 63 uri with Some (p, _) => p | None => uri end.
Definition uri_query (uri : bytes) : option bytes :=
  match split_once 63 uri with Some (_, q) => Some q | None => None end.

(* percent_encoding::percent_decode *)
Fixpoint percent_decode (s : bytes) : bytes :=
  match s with
  | [] => []
  | c :: t =>
      if c =? 37 then
        match t with
        | h :: l :: r =>
            match hexval h, hexval l with
            | Some a, Some b => a * 16 + b :: percent_decode r
            | _, _ => c :: percent_decode t
            end
        | _ => c :: percent_decode t
        end
      else c :: percent_decode t
  end.
Definition plus_to_space (c : N) : N := if c =? 43 then 32 else c.
Definition form_decode (s : bytes) : bytes := percent_decode (map plus_to_space s).

(* url::form_urlencoded::parse *)
Definition query_pair (piece : bytes) : list (bytes * bytes) :=
  match piece with
  | [] => []
  | _ :: _ =>
      match split_once 61 piece with
      | Some (n, v) => [(form_decode n, form_decode v)]
      | None => [(form_decode piece, [])]
      end
  end.
Definition query_pairs (q : bytes) : list (bytes * bytes) := flat_map query_pair (split_on 38 q).
Definition uri_pairs (uri : bytes) : list (bytes * bytes) :=
  match uri_query uri with Some q => query_pairs q | None => [] end.
Definition query_in_domain (uri : bytes) : bool :=
  forallb (fun p => utf8_valid (fst p) && utf8_valid (snd p)) (uri_pairs uri).

Definition cup2key_name : bytes := s2b "cup2key".
(* the value of the first pair named cup2key *)
Definition find_cup2key (uri : bytes) : option bytes :=
  match find (fun p => bytes_eqb (fst p) cup2key_name) (uri_pairs uri) with
  | Some (_, v) => Some v
  | None => None
  end.

(* D5: where lib.rs:367-376 on the pinned tree panics and the repaired code does not:
   the URI is not exactly "/", and there is no query pair at all or the first
   one is not named cup2key *)
Definition d5_class (uri : bytes) : bool :=
  negb (bytes_eqb uri [47]) &&
  match uri_pairs uri with
  | [] => true
  | (n, _) :: _ => negb (bytes_eqb n cup2key_name)
  end.

(* http_uri_ext.rs:53-69 append_query_parameter, on the origin-form text *)
Definition append_query_parameter (uri key value : bytes) : bytes :=
  match split_once 63 uri with
  | Some (p, q) => p ++ [63] ++ q ++ [38] ++ key ++ [61] ++ value
  | None => uri ++ [63] ++ key ++ [61] ++ value
  end.
(* cup_ecdsa.rs:233-235 decorate_request *)
Definition decorate (uri : bytes) (id : N) (nonce : bytes) : bytes :=
  append_query_parameter uri cup2key_name (cup2_urlparam id nonce).

(* ------------------------------------------------------------------ *)
(* make_etag and the handlers                                           *)

Inductive etag_result := EtagNone | EtagSome (e : bytes) | EtagPanic.
Inductive outcome :=
| Reply (status : N) (etag : option bytes) (body : bytes)
| SrvPanic.

Definition set_responses_path : bytes := s2b "/set_responses_by_appid".

Section Crypto.
  Variable sha256 : bytes -> bytes.            (* sha2::Sha256::digest *)
  (* sign sk m: SigningKey::sign(m).to_der() — like Verifier::verify on the
     client side, sign takes a MESSAGE and hashes it once more internally;
     the message is the 32-byte transaction digest *)
  Variable sign : N -> bytes -> bytes.

  (* lib.rs:394-399 *)
  Definition server_digest (req resp cup2key_val : bytes) : bytes :=
    sha256 (sha256 req ++ sha256 resp ++ cup2key_val).

  Definition make_etag (req uri : bytes) (ks : private_keys) (resp : bytes) : etag_result :=
    match find_cup2key uri with
    | None => EtagNone
    | Some v =>
        match split_once 58 v with                          (* split_once(':').unwrap() *)
        | None => EtagPanic
        | Some (idstr, _) =>
            match parse_u64 idstr with                      (* parse::<u64>().unwrap() *)
            | None => EtagPanic
            | Some id =>
                match find_key ks id with
                | None => EtagNone
                | Some sk =>
                    EtagSome (hex_encode (sign sk (server_digest req resp v)) ++ [58] ++ hex_encode (sha256 req))
                end
            end
        end
    end.

  (* lib.rs:443-686 *)
  Definition handle_omaha_request (s : server) (post : bool) (uri body : bytes) : outcome :=
    if negb post then SrvPanic else
    match s_responses s with
    | [] => Reply 500 None []
    | _ :: _ =>
        match server_body (s_responses s) body with
        | None => SrvPanic
        | Some resp =>
            match make_etag body uri (s_keys s) resp with
            | EtagPanic => SrvPanic
            | induced =>
                let ind := match induced with EtagSome e => Some e | _ => None end in
                if s_require_cup s && match ind with None => true | Some _ => false end then SrvPanic
                else
                  let etag := orelse (s_etag_override s) ind in
                  match etag with
                  | Some e => if header_value_ok e then Reply 200 etag resp else SrvPanic
                  | None => Reply 200 None resp
                  end
            end
        end
    end.

  (* ---- handle_set_responses (lib.rs:420-441): serde of HashMap<String, ResponseAndMetadata> ---- *)
  Definition variant_name (j : json) : option bytes :=
    match j with
    | JStr true s => Some s                      (* "Update" *)
    | JObj [(k, true, JNull)] => Some k          (* {"Update": null} *)
    | _ => None
    end.
  Definition dec_omaha_response (j : json) : option omaha_response :=
    match variant_name j with
    | Some s =>
        if bytes_eqb s (s2b "NoUpdate") then Some NoUpdate
        else if bytes_eqb s (s2b "Update") then Some Update
        else if bytes_eqb s (s2b "UrgentUpdate") then Some UrgentUpdate
        else if bytes_eqb s (s2b "InvalidResponse") then Some InvalidResponse
        else if bytes_eqb s (s2b "InvalidURL") then Some InvalidURL
        else None
    | None => None
    end.
  Definition dec_assertion (j : json) : option update_check_assertion :=
    match variant_name j with
    | Some s =>
        if bytes_eqb s (s2b "UpdatesEnabled") then Some UpdatesEnabled
        else if bytes_eqb s (s2b "UpdatesDisabled") then Some UpdatesDisabled
        else None
    | None => None
    end.
  Definition rm_names : list bytes :=
    [nm "response"; nm "check_assertion"; nm "version"; nm "cohort_assertion"; nm "codebase"; nm "package_name"].
  Definition decode_rm (j : json) : option response_and_metadata :=
    match struct_fields rm_names j with
    | Some [r; c; v; co; cb; p] =>
        match req dec_omaha_response r, req dec_assertion c, opt dec_string v, opt dec_string co,
              req dec_string cb, req dec_string p with
        | Some r', Some c', Some v', Some co', Some cb', Some p' =>
            Some {| rm_response := r'; rm_check := c'; rm_version := v'; rm_cohort := co';
                    rm_codebase := cb'; rm_package := p' |}
        | _, _, _, _, _, _ => None
        end
    | _ => None
    end.
  Fixpoint decode_entries (kvs : list (bytes * bool * json)) (acc : response_map) : option response_map :=
    match kvs with
    | [] => Some acc
    | (k, _, v) :: r =>
        match decode_rm v with
        | Some e => decode_entries r (rmap_insert k e acc)
        | None => None
        end
    end.
  Definition decode_response_map (b : bytes) : option response_map :=
    match parse_json b with
    | Some (JObj kvs) => if keys_ok kvs then decode_entries kvs [] else None
    | _ => None
    end.

  Definition handle_set_responses (s : server) (post : bool) (body : bytes) : outcome * server :=
    if negb post then (SrvPanic, s) else
    match decode_response_map body with
    | Some m => (Reply 200 None [], with_responses s m)
    | None => (SrvPanic, s)                     (* expect("parse json") *)
    end.

  (* lib.rs:408-418 *)
  Record http_req := { hq_post : bool; hq_uri : bytes; hq_body : bytes }.
  Definition is_set_responses (r : http_req) : bool := bytes_eqb (uri_path (hq_uri r)) set_responses_path.
  Definition handle_request (s : server) (r : http_req) : outcome * server :=
    if is_set_responses r then handle_set_responses s (hq_post r) (hq_body r)
    else (handle_omaha_request s (hq_post r) (hq_uri r) (hq_body r), s).

  (* a history of requests against one server *)
  Fixpoint run (s : server) (rs : list http_req) : list outcome :=
    match rs with
    | [] => []
    | r :: t => let '(o, s') := handle_request s r in o :: run s' t
    end.
End Crypto.

(* ------------------------------------------------------------------ *)
(* what the property promises (spec side, read off the property text)  *)

(* the fixed cohort of every reply *)
Definition mock_cohort : cohort :=
  {| c_id := Some (s2b "1:1:"); c_hint := Some (s2b "integration-test"); c_name := Some (s2b "integration-test") |}.

Definition expected_manifest (pkg : bytes) : rmanifest :=
  {| mf_version := s2b "0.1.2.3";
     mf_actions := [ {| ac_event := Some (s2b "install"); ac_run := Some pkg; ac_extra := [] |};
                     {| ac_event := Some (s2b "postinstall"); ac_run := None; ac_extra := [] |} ];
     mf_packages := [ {| pk_name := pkg; pk_required := true; pk_size := None; pk_hash := None;
                         pk_hash_sha256 := None; pk_fp := s2b "2.0.1.2.3"; pk_extra := [] |} ] |}.

(* the configured decision as the client's parser must see it; None: the
   configured kind is InvalidResponse, which the parser must refuse *)
Definition expected_update_check (e : response_and_metadata) : option rupdatecheck :=
  match rm_response e with
  | NoUpdate =>
      Some {| uc_status := SNoUpdate; uc_info := None; uc_urls := None; uc_manifest := None; uc_extra := [] |}
  | Update =>
      Some {| uc_status := SOk; uc_info := None; uc_urls := Some [rm_codebase e];
              uc_manifest := Some (expected_manifest (rm_package e)); uc_extra := [] |}
  | UrgentUpdate =>
      Some {| uc_status := SOk; uc_info := None; uc_urls := Some [rm_codebase e];
              uc_manifest := Some (expected_manifest (rm_package e));
              uc_extra := [(s2b "_urgent_update", JBool true)] |}
  | InvalidURL =>
      Some {| uc_status := SOk; uc_info := None; uc_urls := Some [invalid_url_codebase];
              uc_manifest := Some (expected_manifest (rm_package e)); uc_extra := [] |}
  | InvalidResponse => None
  end.

Definition expected_rapp (id : bytes) (uc : option rupdatecheck) : rapp :=
  {| ra_id := id; ra_status := SOk; ra_cohort := mock_cohort; ra_ping := None;
     ra_update_check := uc; ra_events := None; ra_extra := [] |}.

(* one requested app: its reply entry *)
Definition expected_entry (m : response_map) (e : entry) : option rapp :=
  let id := a_id (e_app e) in
  match e_uc e with
  | None => Some (expected_rapp id None)
  | Some _ =>
      match rmap_get id m with
      | Some r => match expected_update_check r with
                  | Some u => Some (expected_rapp id (Some u))
                  | None => None
                  end
      | None => None
      end
  end.
(* the whole document: the requested apps, in request order *)
Definition expected_response (m : response_map) (es : list entry) : option response :=
  match all_some (map (expected_entry m) es) with
  | Some apps =>
      Some {| r_protocol := s2b "3.0"; r_server := Some (s2b "prod");
              r_daystart := Some {| ds_days := Some 4775; ds_seconds := Some 48810 |};
              r_apps := apps |}
  | None => None
  end.

(* ---- when the mock serves a request of the client (its own assertions) ---- *)
Definition reserved_keys : list bytes := [nm "appid"; nm "version"; nm "updatecheck"; nm "cohort"; nm "event"].

Definition entry_served (m : response_map) (e : entry) : bool :=
  let a := e_app e in
  match rmap_get (a_id a) m with
  | None => false                                           (* an app the server is not configured with *)
  | Some r =>
      match rm_version r with Some v => bytes_eqb (Version.print (a_ver a)) v | None => true end
      && match e_uc e with
         | Some (disabled, _) =>
             assertion_holds (rm_check r) disabled
             && match rm_cohort r with
                | Some c => match c_id (a_cohort a) with Some i => bytes_eqb i c | None => false end
                | None => true
                end
         | None => match e_events e with [] => false | _ :: _ => true end     (* neither check nor event: ping only *)
         end
      && forallb (fun kv => negb (mem_key (fst kv) reserved_keys)) (a_extra a)
  end.

Definition uc_count (es : list entry) : nat :=
  length (filter (fun e => match e_uc e with Some _ => true | None => false end) es).
(* lib.rs:469-477: a request with update checks must check exactly as many apps as are configured *)
Definition count_served (m : response_map) (es : list entry) : bool :=
  Nat.eqb (uc_count es) 0 || Nat.eqb (uc_count es) (length m).

(* the strings of a configuration are Rust Strings *)
Definition wf_rm (r : response_and_metadata) : bool := utf8_valid (rm_codebase r) && utf8_valid (rm_package r).
Definition wf_rmap (m : response_map) : bool := forallb (fun kv => utf8_valid (fst kv) && wf_rm (snd kv)) m.

Definition request_served (m : response_map) (cfg : config) (b : builder) : bool :=
  wf_json (json_of_request cfg b)                           (* every string of the request is a Rust String *)
  && forallb (entry_served m) (b_entries b)
  && count_served m (b_entries b).
