(* Model/Version.v — omaha-client/src/version.rs
   Version([u32;4]); Display (22-26), FromStr (44-60), From<[u32;n]> (62-75),
   serde through the string form (77-110), derived Ord on the array. *)
Require Import Verif.Base.Bytes.
Open Scope N_scope.

Definition version := (N * N * N * N)%type.

Definition dot : N := 46.

(* version.rs:22-26  `self.0.iter().format(".")` *)
Definition print (v : version) : bytes :=
  let '(a, b, c, d) := v in
  print_dec a ++ dot :: print_dec b ++ dot :: print_dec c ++ dot :: print_dec d.

(* version.rs:47-59.  The loop checks `i >= 4` *before* it looks at the
   part's parse result, and stops at the first error. *)
Inductive perr := TooManyNumbers | BadNumber.

Fixpoint parse_parts (i : nat) (parts : list bytes) (acc : list N)
  : perr + list N :=
  match parts with
  | [] => inr (rev acc)
  | p :: ps =>
      if Nat.leb 4 i then inl TooManyNumbers
      else match parse_u32 p with
           | Some n => parse_parts (S i) ps (n :: acc)
           | None => inl BadNumber
           end
  end.

(* zero-initialised array, filled from the left *)
Definition fill (ns : list N) : version :=
  (nth 0 ns 0, nth 1 ns 0, nth 2 ns 0, nth 3 ns 0).

Definition parse_res (s : bytes) : perr + version :=
  match parse_parts 0 (split_on dot s) [] with
  | inr ns => inr (fill ns)
  | inl e => inl e
  end.

Definition parse (s : bytes) : option version :=
  match parse_res s with inr v => Some v | inl _ => None end.

(* version.rs:62-75 *)
Definition from_array (ns : list N) : version := fill ns.

(* derived Ord on [u32;4]: lexicographic *)
Definition cmp (x y : version) : comparison :=
  let '(a, b, c, d) := x in
  let '(a', b', c', d') := y in
  match a ?= a' with
  | Eq => match b ?= b' with
          | Eq => match c ?= c' with
                  | Eq => d ?= d'
                  | r => r
                  end
          | r => r
          end
  | r => r
  end.

Definition eqb (x y : version) : bool :=
  match cmp x y with Eq => true | _ => false end.

Definition wf (v : version) : Prop :=
  let '(a, b, c, d) := v in
  a < 2 ^ 32 /\ b < 2 ^ 32 /\ c < 2 ^ 32 /\ d < 2 ^ 32.

(* serde: serialises as the JSON string of `print`; deserialises only from a
   JSON string, through `parse`.  The JSON text layer for such strings
   (digits and dots only, so no escapes) is a pair of quotes. *)
Definition quote : N := 34.
Definition to_json (v : version) : bytes := quote :: print v ++ [quote].

(* the JSON inputs the correspondence feeds: a quoted string without
   escapes, or anything else (numbers, arrays, ...) which serde rejects *)
Definition simple_json_string (j : bytes) : option bytes :=
  match j with
  | 34 :: r =>
      match rev r with
      | 34 :: body_rev =>
          let body := rev body_rev in
          if forallb (fun c => negb (c =? 34) && negb (c =? 92) && (32 <=? c) && (c <? 128)) body
          then Some body else None
      | _ => None
      end
  | _ => None
  end.

Definition of_json (j : bytes) : option version :=
  match simple_json_string j with
  | Some s => parse s
  | None => None
  end.
