(* Base/Bytes.v — byte strings as lists of N (each < 256), decimal and hex
   helpers modelled on the Rust functions the anchored code calls.
   Definitions only; facts are in Proofs/BytesFacts.v. *)
From Coq Require Export String Ascii.
From Coq Require Export List NArith ZArith Bool Lia.
Export ListNotations.
Open Scope N_scope.

Definition byte := N.
Definition bytes := list N.

Arguments N.add : simpl never.
Arguments N.sub : simpl never.
Arguments N.mul : simpl never.
Arguments N.div : simpl never.
Arguments N.modulo : simpl never.
Arguments N.eqb : simpl never.
Arguments N.ltb : simpl never.
Arguments N.leb : simpl never.
Arguments N.pow : simpl never.

(* ---- equality ---- *)
Fixpoint bytes_eqb (a b : bytes) : bool :=
  match a, b with
  | [], [] => true
  | x :: a', y :: b' => (x =? y) && bytes_eqb a' b'
  | _, _ => false
  end.

(* ---- literals: Coq string -> bytes (ASCII only in the models) ---- *)
Definition s2b (s : string) : bytes :=
  map N_of_ascii (list_ascii_of_string s).

(* ---- hex text in generated case files: "68656c" -> [104;101;108] ---- *)
Definition hexval (c : N) : option N :=
  if (48 <=? c) && (c <=? 57) then Some (c - 48)
  else if (97 <=? c) && (c <=? 102) then Some (c - 87)
  else if (65 <=? c) && (c <=? 70) then Some (c - 55)
  else None.

(* the `hex` crate: odd length -> error, any non-hex digit -> error,
   both cases accepted *)
Fixpoint hex_decode (s : bytes) : option bytes :=
  match s with
  | [] => Some []
  | [_] => None
  | h :: l :: r =>
      match hexval h, hexval l, hex_decode r with
      | Some a, Some b, Some t => Some (a * 16 + b :: t)
      | _, _, _ => None
      end
  end.

Definition hexdigit (n : N) : N := if n <? 10 then 48 + n else 87 + n.

(* hex::encode: lower case *)
Fixpoint hex_encode (s : bytes) : bytes :=
  match s with
  | [] => []
  | b :: r => hexdigit (b / 16) :: hexdigit (b mod 16) :: hex_encode r
  end.

(* used only by generated case files *)
Definition hx (s : string) : bytes :=
  match hex_decode (s2b s) with Some b => b | None => [] end.

(* ---- decimal ---- *)
Definition is_digit (c : N) : bool := (48 <=? c) && (c <=? 57).

(* value of a digit string, most significant first (no validity check) *)
Definition dec_value (s : bytes) : N :=
  fold_left (fun acc c => acc * 10 + (c - 48)) s 0.

Definition all_digits (s : bytes) : bool := forallb is_digit s.

(* Rust `uN::from_str`: optional single leading '+', then at least one
   ASCII digit, nothing else; value must be < bound (checked arithmetic per
   digit is equivalent to the final value being in range). *)
Definition strip_plus (s : bytes) : bytes :=
  match s with 43 :: r => r | _ => s end.

Definition parse_digits (bound : N) (ds : bytes) : option N :=
  match ds with
  | [] => None
  | _ :: _ => if all_digits ds
              then (if dec_value ds <? bound then Some (dec_value ds) else None)
              else None
  end.

Definition parse_unsigned (bound : N) (s : bytes) : option N :=
  parse_digits bound (strip_plus s).

Definition parse_u32 := parse_unsigned (2 ^ 32).
Definition parse_u64 := parse_unsigned (2 ^ 64).

(* decimal printing (Display for unsigned integers): no sign, no leading
   zeros, "0" for zero.  Fuel = bit size + 1 always suffices. *)
Fixpoint print_dec_aux (fuel : nat) (n : N) (acc : bytes) : bytes :=
  match fuel with
  | O => acc
  | S f =>
      let acc' := (48 + n mod 10) :: acc in
      if n / 10 =? 0 then acc' else print_dec_aux f (n / 10) acc'
  end.

Definition print_dec (n : N) : bytes := print_dec_aux (S (N.size_nat n)) n [].

(* ---- splitting and joining ---- *)
(* Rust `str::split(char)`: always at least one part; "a..b" has an empty
   part; "" gives one empty part. *)
Fixpoint split_on (sep : N) (s : bytes) : list bytes :=
  match s with
  | [] => [[]]
  | c :: r =>
      if c =? sep then [] :: split_on sep r
      else match split_on sep r with
           | p :: ps => (c :: p) :: ps
           | [] => [[c]]
           end
  end.

Fixpoint join_with (sep : N) (parts : list bytes) : bytes :=
  match parts with
  | [] => []
  | [p] => p
  | p :: ps => p ++ sep :: join_with sep ps
  end.

(* str::split_once(c) *)
Fixpoint split_once (sep : N) (s : bytes) : option (bytes * bytes) :=
  match s with
  | [] => None
  | c :: r =>
      if c =? sep then Some ([], r)
      else match split_once sep r with
           | Some (a, b) => Some (c :: a, b)
           | None => None
           end
  end.

Fixpoint starts_with (p s : bytes) : bool :=
  match p, s with
  | [], _ => true
  | x :: p', y :: s' => (x =? y) && starts_with p' s'
  | _ :: _, [] => false
  end.

Definition strip_prefix (p s : bytes) : option bytes :=
  if starts_with p s then Some (skipn (length p) s) else None.

Definition ends_with (p s : bytes) : bool := starts_with (rev p) (rev s).
